"""C09 - a topology operation that fails leaves the model unchanged (see fimmc/topo.py)."""
from checks._topo_common import make_models, run_topo

LEVEL = 'model_checking'
MODELS = make_models('c09')
REPLAY = MODELS


def run(report):
    q = report.tier == 'quick'
    depths = {('exp', 'empty'): 3 if q else 4, ('exp', 'R1'): 2 if q else 3, ('exp', 'R2'): 1 if q else 2, ('exp', 'R4'): 1,
              ('sub', 'S0'): 3 if q else 5, ('sub', 'S1'): 2 if q else 3, ('sub', 'S2'): 2 if q else 3}
    groups = run_topo(report, MODELS, 'c09', depths)
    outs = {}
    for g in groups.values():
        for k, n in g['outcomes'].items():
            outs[k] = outs.get(k, 0) + n
    report.require(outs.get('fail:raise', 0) > 100, 'failing variants raised')
    report.notes.append(f"failing-variant probes: raised {outs.get('fail:raise', 0)}, unexpectedly succeeded "
                        f"{outs.get('fail:ok', 0)} (not a C09 matter), skipped {outs.get('fail:skip', 0)}")
    report.assumptions.append('which exception class is raised is not constrained; a call that unexpectedly succeeds is judged by '
                              'C07/C10, not here')
