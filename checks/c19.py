"""C19 - persistent-backend statements are well-formed and data-independent.

Engine E4: the real Neo4j backend classes are driven through a recording stand-in driver (fimmc/envdrv.py). For every
public operation: every value position x every adversarial value (one position at a time, then all jointly) x environment
answers (record / no record / empty result, each single deviation). Oracle: lexical well-formedness (fimmc/cypherlex.py)
and text invariance (only string-literal contents may vary with a value, and the literal must de-escape to the value).
"""
import os
import shutil
import tempfile

import networkx as nx

from fim.graph.neo4j_property_graph import Neo4jPropertyGraph
from fim.graph.resources.neo4j_cbm import Neo4jCBMGraph
from fim.graph.slices.neo4j_asm import Neo4jASM
from fim.graph.resources.neo4j_adm import Neo4jADMGraph
from fim.graph.resources.neo4j_arm import Neo4jARMGraph
from fim.slivers.attached_components import AttachedComponentsInfo, ComponentSliver, ComponentType
from fim.slivers.delegations import DelegationType

from fimmc.engine import explore_cases
from fimmc.envdrv import make_importer
from fimmc import cypherlex

LEVEL = 'exploration'
W = ['plain', "a'b", 'a"b', 'a\\b', 'a{b}', '{{x}}', '$x', 'a\nb', "' }) DETACH DELETE n //", 'RETURN', '', 'é']
GML = None


def _gml(gid):
    g = nx.Graph()
    g.add_node('1', NodeID='a', Class='NetworkNode', Name='n', Type='VM', GraphID=gid)
    g.add_node('2', NodeID='b', Class='Component', Name='c', Type='GPU', GraphID=gid)
    g.add_edge('1', '2', Class='has')
    return '\n'.join(nx.generate_graphml(g))


def _gml_file(c, gid):
    path = os.path.join(c.imp.import_host_dir, 'src.graphml')
    with open(path, 'w') as f:
        f.write(_gml(gid))
    return path


def comp(model):
    a = AttachedComponentsInfo()
    c = ComponentSliver()
    c.set_name('c1')
    c.set_type(ComponentType.GPU)
    c.set_model(model)
    a.add_device(c)
    return a


# operation table: name -> (value positions, callable(ctx, values))
# ctx.g(gid) -> Neo4jPropertyGraph, ctx.cbm(gid), ctx.asm(gid), ctx.imp
def ops():
    o = {}
    G = lambda c, v: c.g(v['gid'])
    o['delete_graph'] = (['gid'], lambda c, v: G(c, v).delete_graph())
    o['get_all_nodes_by_class'] = (['gid'], lambda c, v: G(c, v).get_all_nodes_by_class(label='NetworkNode'))
    o['get_all_nodes_by_class_and_type'] = (['gid', 'ntype'], lambda c, v: G(c, v).get_all_nodes_by_class_and_type(label='NetworkNode', ntype=v['ntype']))
    # the class label is an identifier the text may depend on - but the text must be well-formed for EVERY class of the model
    for cls_ in ('NetworkNode', 'Component', 'NetworkService', 'ConnectionPoint', 'Link', 'CompositeNode', 'CompositeLink', 'MeasurementPoint'):
        if cls_ != 'NetworkNode':
            o[f'get_all_nodes_by_class/{cls_}'] = (['gid'], (lambda k: lambda c, v: G(c, v).get_all_nodes_by_class(label=k))(cls_))
            o[f'get_all_nodes_by_class_and_type/{cls_}'] = (['gid', 'ntype'], (lambda k: lambda c, v: G(c, v).get_all_nodes_by_class_and_type(label=k, ntype=v['ntype']))(cls_))
            o[f'node_exists/{cls_}'] = (['gid', 'node'], (lambda k: lambda c, v: G(c, v).node_exists(node_id=v['node'], label=k))(cls_))
            o[f'check_node_unique/{cls_}'] = (['gid', 'val'], (lambda k: lambda c, v: G(c, v).check_node_unique(label=k, name=v['val']))(cls_))
            o[f'get_first_neighbor/{cls_}'] = (['gid', 'node'], (lambda k: lambda c, v: G(c, v).get_first_neighbor(node_id=v['node'], rel='connects', node_label=k))(cls_))
    o['list_all_node_ids'] = (['gid'], lambda c, v: G(c, v).list_all_node_ids())
    o['get_node_properties'] = (['gid', 'node'], lambda c, v: G(c, v).get_node_properties(node_id=v['node']))
    o['get_node_json_property_as_object'] = (['gid', 'node'], lambda c, v: G(c, v).get_node_json_property_as_object(node_id=v['node'], prop_name='Labels'))
    o['get_link_properties'] = (['gid', 'a', 'b'], lambda c, v: G(c, v).get_link_properties(node_a=v['a'], node_b=v['b']))
    o['update_node_property'] = (['gid', 'node', 'val'], lambda c, v: G(c, v).update_node_property(node_id=v['node'], prop_name='P', prop_val=v['val']))
    o['unset_node_property'] = (['gid', 'node'], lambda c, v: G(c, v).unset_node_property(node_id=v['node'], prop_name='P'))
    o['update_nodes_property'] = (['gid', 'val'], lambda c, v: G(c, v).update_nodes_property(prop_name='P', prop_val=v['val']))
    o['update_node_properties'] = (['gid', 'node', 'val', 'val2'], lambda c, v: G(c, v).update_node_properties(node_id=v['node'], props={'P': v['val'], 'Q': v['val2']}))
    o['update_link_property'] = (['gid', 'a', 'b', 'val'], lambda c, v: G(c, v).update_link_property(node_a=v['a'], node_b=v['b'], kind='has', prop_name='P', prop_val=v['val']))
    o['unset_link_property'] = (['gid', 'a', 'b'], lambda c, v: G(c, v).unset_link_property(node_a=v['a'], node_b=v['b'], kind='has', prop_name='P'))
    o['update_link_properties'] = (['gid', 'a', 'b', 'val'], lambda c, v: G(c, v).update_link_properties(node_a=v['a'], node_b=v['b'], kind='has', props={'P': v['val']}))
    o['serialize_graph'] = (['gid'], lambda c, v: G(c, v).serialize_graph())
    o['graph_exists'] = (['gid'], lambda c, v: G(c, v).graph_exists())
    o['get_nodes_on_shortest_path'] = (['gid', 'a', 'b'], lambda c, v: G(c, v).get_nodes_on_shortest_path(node_a=v['a'], node_z=v['b']))
    o['get_nodes_on_shortest_path+rel'] = (['gid', 'a', 'b'], lambda c, v: G(c, v).get_nodes_on_shortest_path(node_a=v['a'], node_z=v['b'], rel='connects'))
    o['get_nodes_on_path_with_hops'] = (['gid', 'a', 'b', 'hop', 'hop2'], lambda c, v: G(c, v).get_nodes_on_path_with_hops(node_a=v['a'], node_z=v['b'], hops=[v['hop'], v['hop2']]))
    o['get_nodes_on_path_with_hops+nohops'] = (['gid', 'a', 'b'], lambda c, v: G(c, v).get_nodes_on_path_with_hops(node_a=v['a'], node_z=v['b'], hops=[]))
    o['get_first_neighbor'] = (['gid', 'node'], lambda c, v: G(c, v).get_first_neighbor(node_id=v['node'], rel='has', node_label='Component'))
    o['get_first_and_second_neighbor'] = (['gid', 'node'], lambda c, v: G(c, v).get_first_and_second_neighbor(node_id=v['node'], rel1='has', node1_label='Component', rel2='has', node2_label='NetworkService'))
    o['delete_node'] = (['gid', 'node'], lambda c, v: G(c, v).delete_node(node_id=v['node']))
    o['node_exists'] = (['gid', 'node'], lambda c, v: G(c, v).node_exists(node_id=v['node'], label='NetworkNode'))
    o['add_node'] = (['gid', 'node', 'val'], lambda c, v: G(c, v).add_node(node_id=v['node'], label='NetworkNode', props={'Name': v['val']}))
    o['add_node+noprops'] = (['gid', 'node'], lambda c, v: G(c, v).add_node(node_id=v['node'], label='NetworkNode'))
    o['add_link'] = (['gid', 'a', 'b', 'val'], lambda c, v: G(c, v).add_link(node_a=v['a'], rel='has', node_b=v['b'], props={'P': v['val']}))
    o['add_link+noprops'] = (['gid', 'a', 'b'], lambda c, v: G(c, v).add_link(node_a=v['a'], rel='has', node_b=v['b']))
    o['find_matching_nodes'] = (['gid', 'gid2'], lambda c, v: G(c, v).find_matching_nodes(other_graph=c.g(v['gid2'])))
    o['merge_nodes'] = (['gid', 'gid2', 'node'], lambda c, v: G(c, v).merge_nodes(v['node'], c.g(v['gid2'])))
    o['merge_nodes+policy'] = (['gid', 'gid2', 'node'], lambda c, v: G(c, v).merge_nodes(v['node'], c.g(v['gid2']), {'P': 'discard', 'Q': 'overwrite'}))
    o['merge_nodes+policy1'] = (['gid', 'gid2', 'node'], lambda c, v: G(c, v).merge_nodes(v['node'], c.g(v['gid2']), {'P': 'combine'}))
    o['merge_nodes+policy0'] = (['gid', 'gid2', 'node'], lambda c, v: G(c, v).merge_nodes(v['node'], c.g(v['gid2']), {}))
    o['get_stitch_nodes'] = (['gid'], lambda c, v: G(c, v).get_stitch_nodes())
    o['check_node_unique'] = (['gid', 'val'], lambda c, v: G(c, v).check_node_unique(label='NetworkNode', name=v['val']))
    o['get_graph_diff'] = (['gid', 'gid2'], lambda c, v: G(c, v).get_graph_diff(c.g(v['gid2']), 'NetworkNode'))
    o['get_graph_property_diff'] = (['gid', 'gid2'], lambda c, v: G(c, v).get_graph_property_diff(c.g(v['gid2']), 'NetworkNode'))
    o['validate_graph'] = (['gid'], lambda c, v: G(c, v).validate_graph())
    o['clone_graph'] = (['gid', 'gid2'], lambda c, v: G(c, v).clone_graph(new_graph_id=v['gid2']))
    o['importer.delete_graph'] = (['gid'], lambda c, v: c.imp.delete_graph(graph_id=v['gid']))
    o['importer.delete_all_graphs'] = ([], lambda c, v: c.imp.delete_all_graphs())
    o['importer.cast_graph'] = (['gid'], lambda c, v: c.imp.cast_graph(graph_id=v['gid']))
    o['importer._import_graph'] = (['gid', 'val'], lambda c, v: c.imp._import_graph(v['val'], v['gid']))
    o['importer.import_graph_from_string'] = (['gid'], lambda c, v: c.imp.import_graph_from_string(graph_string=_gml('x'), graph_id=v['gid']))
    o['importer.import_graph_from_file_direct'] = (['gid'], lambda c, v: c.imp.import_graph_from_file_direct(graph_file=_gml_file(c, v['gid'])))
    o['importer.import_graph_from_string_direct'] = (['gid'], lambda c, v: c.imp.import_graph_from_string_direct(graph_string=_gml(v['gid'])))
    o['asm.check_node_name'] = (['gid', 'node', 'val'], lambda c, v: c.asm(v['gid']).check_node_name(node_id=v['node'], label='NetworkNode', name=v['val']))
    o['asm.find_node_by_name'] = (['gid', 'val'], lambda c, v: c.asm(v['gid']).find_node_by_name(node_name=v['val'], label='NetworkNode'))
    o['cbm.get_matching_nodes_with_components'] = (['gid', 'val'], lambda c, v: c.cbm(v['gid']).get_matching_nodes_with_components(label='NetworkNode', props={'Site': v['val']}))
    o['cbm.get_matching_nodes_with_components+comps'] = (['gid', 'val', 'val2'], lambda c, v: c.cbm(v['gid']).get_matching_nodes_with_components(label='NetworkNode', props={'Site': v['val']}, comps=comp(v['val2'])))
    for nm in ('get_intersite_links', 'get_sites', 'get_disconnected_sites', 'get_connected_sites', 'get_facility_ports'):
        o['cbm.' + nm] = (['gid'], (lambda nm: lambda c, v: getattr(c.cbm(v['gid']), nm)())(nm))
    o['cbm.get_delegations'] = (['gid', 'node', 'val'], lambda c, v: c.cbm(v['gid']).get_delegations(node_id=v['node'], adm_id=v['val'], delegation_type=DelegationType.LABEL))
    o['cbm.unmerge_adm'] = (['gid', 'val'], lambda c, v: c.cbm(v['gid']).unmerge_adm(graph_id=v['val']))
    # ... where the stored nodes were contributed by exactly the model being removed (so they are deleted)
    o['cbm.unmerge_adm/own-nodes'] = (['gid', 'val'], lambda c, v: c.cbm(v['gid']).unmerge_adm(graph_id=v['val']))
    o['cbm.snapshot'] = (['gid'], lambda c, v: c.cbm(v['gid']).snapshot())
    o['cbm.rollback'] = (['gid', 'gid2'], lambda c, v: c.cbm(v['gid']).rollback(graph_id=v['gid2']))
    o['adm.rewrite_delegations'] = (['gid', 'val'], lambda c, v: Neo4jADMGraph(graph_id=v['gid'], importer=c.imp).rewrite_delegations(real_adm_id=v['val']))
    return o


OPS = ops()


class Ctx:
    def __init__(self, tmp):
        self.imp = make_importer(tmp)

    def g(self, gid):
        return Neo4jPropertyGraph(graph_id=gid, importer=self.imp)

    def cbm(self, gid):
        return Neo4jCBMGraph(graph_id=gid, importer=self.imp)

    def asm(self, gid):
        return Neo4jASM(graph_id=gid, importer=self.imp)


def run_op(op, values, mode='rich', deviate=None):
    tmp = tempfile.mkdtemp(prefix='c19_')
    try:
        c = Ctx(tmp)
        c.imp.driver.default_mode = mode
        c.imp.driver.deviate = deviate or {}
        err = None
        from fimmc import envdrv as _ed
        _ed.ANSWER['node'] = values.get('@node', 'n1')
        _ed.ANSWER['adm'] = values.get('val', 'a1') if op.endswith('/own-nodes') else 'a1'
        try:
            OPS[op][1](c, values)
        except Exception as e:
            err = f'{type(e).__name__}'
        return c.imp.driver.calls, err
    finally:
        shutil.rmtree(tmp, ignore_errors=True)


def eval_op(case):
    op = case[0]
    # value positions: the call's arguments, plus '@node' = a node id the database reports back (a stored value too)
    positions = list(OPS[op][0]) + ['@node']
    base_vals = {p: ('n1' if p == '@node' else f'{p}-id') for p in positions}
    v = []
    seen_fp = set()

    def bad(site, clause, msg):
        fp = f'{site}/{clause}'
        if fp not in seen_fp:
            seen_fp.add(fp)
            v.append((fp, msg))
    nstat = 0
    texts = set()
    for mode in ('rich', 'none', 'empty'):
        calls0, err0 = run_op(op, base_vals, mode)
        ncalls = len(calls0)
        deviations = [None] + ([{i: m} for i in range(ncalls) for m in ('none', 'empty', 'raise')] if mode == 'rich' else [])
        for dev in deviations:
            calls_b, _ = run_op(op, base_vals, mode, dev)
            for i, (st, pr, site) in enumerate(calls_b):
                nstat += 1
                texts.add(st)
                for clause, msg in cypherlex.well_formed(st, pr):
                    bad(site, clause, f'[{site}, reached via {op}] {msg}\n    statement: {st!r}')
            # values: one position at a time, then jointly
            variants = ([(p, w) for p in positions for w in W] + [('*', w) for w in W]) if positions else []
            for p, w in variants:
                vals = dict(base_vals)
                if p == '*':
                    for q in positions:
                        if q != '@node':
                            vals[q] = w
                else:
                    vals[p] = w
                calls, _ = run_op(op, vals, mode, dev)
                for i, (st, pr, site) in enumerate(calls):
                    nstat += 1
                    if w in ('plain', 'RETURN', ''):
                        # harmless values (also: all arguments equal, the empty string): whatever branch the client code
                        # takes for them, the statement must be well-formed in its own right
                        for clause, msg in cypherlex.well_formed(st, pr):
                            bad(site, clause, f'[{site}, reached via {op} with {p}={w!r}] {msg}\n    statement: {st!r}')
                    if i >= len(calls_b) or calls_b[i][2] != site:
                        continue          # value-dependent control flow in client code; no baseline statement to compare with
                    st0 = calls_b[i][0]
                    if st == st0:
                        continue
                    # the text moved with the value: allowed only as one correctly escaped literal
                    kind = 'graph-id' if p in ('gid', 'gid2') else 'stored-value'
                    ok = False
                    why = ''
                    try:
                        m1, lits = cypherlex.mask(st)
                        m0, lits0 = cypherlex.mask(st0)
                        if m1 != m0:
                            why = 'the value changes the statement outside string literals'
                        elif not any(w == l for l in lits) and not (p == '*'):
                            why = f'the value is spliced into a literal that does not de-escape to it (literals {lits})'
                        elif cypherlex.well_formed(st, pr):
                            why = f'{cypherlex.well_formed(st, pr)[0][1]}'
                        else:
                            ok = True
                    except cypherlex.LexError as e:
                        why = f'the statement becomes lexically malformed ({e})'
                    if p == '*' and any(fp.startswith(site + '/text-depends-on') for fp in seen_fp):
                        continue          # already explained by a single-position variant
                    if not ok:
                        bad(site, f'text-depends-on-{kind}',
                            f'[{site}, reached via {op}] {p}={w!r}: {why}\n    statement: {st!r}\n    baseline:  {st0!r}')
                    else:
                        bad(site, f'text-depends-on-{kind}',
                            f'[{site}, reached via {op}] {p}={w!r}: the statement text is built from the value (escaped here, but the text '
                            f'is not data-independent)\n    statement: {st!r}') if False else None
    return {'v': v, 'nt': (op, len(texts)), 'out': f'{len(positions)}-positions', 'counts': {'statements_judged': nstat, 'distinct_statement_texts': len(texts)}}


def _in_child(fn):
    """fn() in a forked child (class-level state of the library starts as in this process and dies with the child)"""
    import os
    import pickle
    r, w = os.pipe()
    pid = os.fork()
    if pid == 0:
        try:
            os.close(r)
            try:
                out = ('ok', fn())
            except BaseException as e:      # noqa
                out = ('raise', f'{type(e).__name__}: {e}')
            with os.fdopen(w, 'wb') as f:
                pickle.dump(out, f)
        finally:
            os._exit(0)
    os.close(w)
    with os.fdopen(r, 'rb') as f:
        data = f.read()
    os.waitpid(pid, 0)
    return pickle.loads(data) if data else ('raise', 'child died')


def _plain(calls):
    return [(st, {k: repr(x) for k, x in (pr or {}).items()}, site) for st, pr, site in calls]


def eval_after(case):
    """history: operation B right after operation A in the same process (fresh process per pair) - the statements B hands to the
    driver are those it hands over when it is the first thing the process does, and are well-formed"""
    op_b = case[0]
    vals_b = {p: ('n1' if p == '@node' else f'{p}-id') for p in list(OPS[op_b][0]) + ['@node']}
    v = []
    seen_fp = set()

    def bad(site, clause, msg):
        fp = f'{site}/{clause}'
        if fp not in seen_fp:
            seen_fp.add(fp)
            v.append((fp, msg))
    alone = _in_child(lambda: _plain(run_op(op_b, vals_b)[0]))
    if alone[0] != 'ok':
        return {'v': [('harness/alone-failed', f'{op_b}: {alone[1]}')], 'nt': None, 'out': 'alone-failed'}
    npairs = 0
    for op_a in OPS:
        if '/' in op_a and not op_a.endswith('/own-nodes'):
            continue          # per-class variants of a listed operation
        vals_a = {p: ('n1' if p == '@node' else f'{p}-id') for p in list(OPS[op_a][0]) + ['@node']}

        def both(op_a=op_a, vals_a=vals_a):
            run_op(op_a, vals_a)
            return _plain(run_op(op_b, vals_b)[0])
        got = _in_child(both)
        npairs += 1
        if got[0] != 'ok':
            continue
        for st, pr, site in got[1]:
            for clause, msg in cypherlex.well_formed(st, pr):
                bad(site, clause, f'[{site}, reached via {op_b} called after {op_a}] {msg}\n    statement: {st!r}')
        if [x[0] for x in got[1]] != [x[0] for x in alone[1]]:
            diff = [(a, b) for a, b in zip([x[0] for x in alone[1]], [x[0] for x in got[1]]) if a != b][:1]
            site = next((x[2] for x, y in zip(got[1], alone[1]) if x[0] != y[0]), got[1][0][2] if got[1] else '?')
            bad(site, 'text-depends-on-earlier-call', f'[{site}] {op_b} called after {op_a} sends other statements than when called first: {diff}')
    return {'v': v, 'nt': (op_b, npairs), 'out': 'after-every-operation'}


REPLAY = {'operations': eval_op, 'after-another-operation': eval_after}


def run(report):
    cases = [(op,) for op in OPS]
    g = explore_cases(report, 'operations', eval_op, cases, chunk=1,
                      rule='one case = one backend operation: baseline + every value position x 12 adversarial values (one position at a '
                           'time, then all positions jointly) x environment answers (record / none / empty for all calls; each single '
                           'deviation - none, empty, or an injected driver fault - of one call under the default answer); every recorded (statement, parameters) pair is judged; '
                           'distinct = operations with at least one recorded statement',
                      space=f'{len(OPS)} operations of Neo4jPropertyGraph, Neo4jGraphImporter, Neo4jASM, Neo4jADMGraph, Neo4jCBMGraph')
    explore_cases(report, 'after-another-operation', eval_after, [(op,) for op in OPS if '/' not in op or op.endswith('/own-nodes')], chunk=1,
                  rule='every ORDERED PAIR of backend operations, each pair in a process of its own: the second operation must hand the '
                       'driver the statements it hands over when called first, and they must be well-formed')
    report.assumptions += ['well-formedness is judged lexically (no Cypher parser / server in the sandbox): balanced brackets and quotes, no '
                           'template residue, named parameters supplied, variables used in properties()/labels()/type()/x.prop/RETURN x bound',
                           'a value may appear in the text only inside one string literal that de-escapes to it; graph ids are stored '
                           'values too (GraphID property)']
