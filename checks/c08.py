"""C08 - removal and disconnection delete exactly the owned structure and nothing else (see fimmc/topo.py)."""
from checks._topo_common import make_models, run_topo
from fimmc.topo import REMOVALS

LEVEL = 'model_checking'
MODELS = make_models('c08')
REPLAY = MODELS


def run(report):
    q = report.tier == 'quick'
    depths = {('exp', 'empty'): 4 if q else 5, ('exp', 'R1'): 2 if q else 3, ('exp', 'R2'): 2 if q else 2, ('exp', 'R4'): 1 if q else 2,
              ('sub', 'S0'): 3 if q else 5, ('sub', 'S1'): 2 if q else 3, ('sub', 'S2'): 2 if q else 3}
    groups = run_topo(report, MODELS, 'c08', depths)
    outs = {}
    for g in groups.values():
        for k, n in g['outcomes'].items():
            outs[k] = outs.get(k, 0) + n
    for k in sorted(REMOVALS):
        if k == 'remove_link':
            # in the experiment flavour every link belongs to a connection: the call is exercised, its outcome is the library's
            report.require(outs.get('remove_link:ok', 0) + outs.get('remove_link:raise', 0) > 0, 'remove_link exercised')
            continue
        report.require(outs.get(f'{k}:ok', 0) > 0, f'removal kind {k} executed successfully at least once')
    report.notes.append('checked transitions (removal/disconnect events): %d' %
                        sum(n for k, n in outs.items() if k.split(':')[0] in REMOVALS))
    report.assumptions += ['owned closure = element + everything reachable downwards over has / service-port / sub-interface '
                           'ownership + for every removed connected port the service-side port created for it (both sides for '
                           'service-to-service peering) + every link left with fewer than two ends',
                           'whether a catalogue-created parent port emptied of sub-interfaces is kept is unspecified']
