"""C11 - authorization and accounting attributes cover every resource, in any order.  Engine E2 over slices x all creation orders."""
import itertools
import json

from fim.user.topology import ExperimentTopology
from fim.user.component import ComponentModelType
from fim.slivers.capacities_labels import Capacities, Labels, CapacityHints
from fim.slivers.network_service import ServiceType
from fim.authz.attribute_collector import ResourceAuthZAttributes as AZ
from fim.logging.log_collector import LogCollector

from fimmc import world
from fimmc.engine import explore_cases
from fimmc.topo import Raw, NN, COMP, NS, CP, LINK

LEVEL = 'exploration'
world.install_uuid_seam()

MIXES = {'none': [], 'gpu': [('g1', 'GPU_RTX6000')], 'nvme+shared': [('d1', 'NVME_P4510'), ('sh', 'SharedNIC_ConnectX_6')]}
NODE_CONFIGS_Q = [(('S1', 'none'),), (('S1', 'gpu'),), (('S1', 'none'), ('S1', 'nvme+shared')), (('S1', 'none'), ('S2', 'none')),
                  (('S1', 'gpu'), ('S2', 'nvme+shared'))]
NODE_CONFIGS_T = NODE_CONFIGS_Q + [(('S1', 'none'), ('S2', 'gpu'), ('S1', 'nvme+shared')), (('S2', 'none'), ('S2', 'none'), ('S1', 'gpu'))]
# node sizing variants (third member of a node entry): explicit capacities (default), an instance-type hint only, or unsized
# a P4 switch among the nodes (it takes no services here): first, last and between two VMs in the description
NODE_CONFIGS_P4 = [(('S1', 'p4'),), (('S1', 'p4'), ('S1', 'none')), (('S1', 'gpu'), ('S2', 'p4')), (('S1', 'none'), ('S2', 'p4'), ('S2', 'nvme+shared'))]
NODE_CONFIGS_SIZING = [(('S1', 'gpu', 'hints'),), (('S1', 'none'), ('S2', 'nvme+shared', 'unsized')), (('S2', 'gpu', 'hints'), ('S1', 'none'))]
KINDS = ('bridge', 'bridge_vlan', 'v4ext', 'v6ext', 'pm_in', 'pm_out', 'v4ext2')   # v4ext2: an external service on BOTH ports of the node's NIC   # bridge_vlan: its service port is labelled, but not named
CAPS = [(2, 8, 10), (4, 16, 100), (8, 32, 500)]


def build(nodes_cfg, services, node_order, svc_order, facility):
    """builds the slice with the given creation orders; returns the topology"""
    world.reset_all()
    t = ExperimentTopology()
    for k in node_order:
        site, mix = nodes_cfg[k][:2]
        sizing = nodes_cfg[k][2] if len(nodes_cfg[k]) > 2 else 'caps'
        c, r, d = CAPS[k]
        if mix == 'p4':
            t.add_switch(name=f'n{k}', site=site)
            continue
        if sizing == 'caps':
            n = t.add_node(name=f'n{k}', site=site, capacities=Capacities(core=c, ram=r, disk=d))
        elif sizing == 'hints':
            n = t.add_node(name=f'n{k}', site=site, capacity_hints=CapacityHints(instance_type='fabric.c4.m16.d100'))
        else:
            n = t.add_node(name=f'n{k}', site=site)
        n.add_component(name='nic', model_type=ComponentModelType.SmartNIC_ConnectX_6)
        for cn, model in MIXES[mix]:
            n.add_component(name=cn, model_type=ComponentModelType[model])
    if facility:
        # (a site of its own: nothing else in the slice names it)
        if facility == 'l3vpn':
            # ... whose own service is of a type without a site limit (no site is recorded on such a service)
            t.add_facility(name='fac1', site='S3', nstype=ServiceType.L3VPN, labels=Labels(vlan='100'))
        else:
            t.add_facility(name='fac1', site='S3', labels=Labels(vlan='100'))
    used = {}
    for j in svc_order:
        kind, k = services[j]
        n = t.nodes[f'n{k}']
        slot = used.get(k, 0)
        # port assignment depends on the service's index in the description, not on the creation order
        port_idx = [jj for jj, (_, kk) in enumerate(services) if kk == k].index(j)
        port = [i for i in n.components['nic'].interface_list if i.name.endswith(f'p{port_idx + 1}')][0]
        if kind == 'v4ext2':
            both = sorted(n.components['nic'].interface_list, key=lambda i: i.name)
            t.add_network_service(name=f'svc{j}', nstype=ServiceType.FABNetv4Ext, interfaces=both)
            continue
        used[k] = slot + 1
        name = f'svc{j}'
        if kind == 'bridge':
            s = t.add_network_service(name=name, nstype=ServiceType.L2Bridge, interfaces=[port], capacities=Capacities(bw=10 + j))
            s.interface_list[0].labels = Labels(local_name=f'HGE-{j}')
        elif kind == 'bridge_vlan':
            s = t.add_network_service(name=name, nstype=ServiceType.L2Bridge, interfaces=[port])
            s.interface_list[0].labels = Labels(vlan=str(100 + j))
        elif kind == 'v4ext':
            t.add_network_service(name=name, nstype=ServiceType.FABNetv4Ext, interfaces=[port])
        elif kind == 'v6ext':
            t.add_network_service(name=name, nstype=ServiceType.FABNetv6Ext, interfaces=[port])
        elif kind == 'pm_in':
            b = [jj for jj, (kd, _) in enumerate(services) if kd == 'bridge'][0]
            t.add_port_mirror_service(name=name, from_interface_name=f'HGE-{b}', to_interface=port, capacities=Capacities(bw=20 + j))
        elif kind == 'pm_out':
            t.add_port_mirror_service(name=name, from_interface_name=f'OUTSIDE-{j}', to_interface=port, capacities=Capacities(bw=20 + j))
    return t


def requested_bw(services):
    """the bandwidths the DESCRIPTION asks for (the tally below reads the model that was built from it: what a convenience
    call silently drops on the way into the model is missing from both the model and the attributes)"""
    return sorted([10 + j for j, (kind, _) in enumerate(services) if kind == 'bridge'] +
                  [20 + j for j, (kind, _) in enumerate(services) if kind in ('pm_in', 'pm_out')])


def tally(t):
    """independent tally straight from the stored graph"""
    raw = Raw(t.graph_model.graph_id)

    def js(nid, prop):
        v = raw.nodes[nid].get(prop)
        return json.loads(v) if v else {}
    out = dict(cpu=[], ram=[], disk=[], bw=[], comp=[], sites=set(), fac=[], v4=set(), v6=set(), mirror_out=set(), mirror_all=set(),
               vms=0, cores=0, services=[], switches=0)
    in_slice = set()
    for sp in raw.by_class(CP):
        if raw.typ(sp) == 'ServicePort':
            ln = js(sp, 'Labels').get('local_name')
            peers = [y for l in raw.nb(sp, 'connects', LINK) for y in raw.nb(l, 'connects', CP) if y != sp]
            if ln and any(raw.typ(y) != 'ServicePort' for y in peers):
                in_slice.add(ln)
    for n in raw.by_class(NN):
        d = raw.nodes[n]
        if d['Type'] == 'Facility':
            out['fac'].append(d['Name'])
            if d.get('Site'):
                out['sites'].add(d['Site'])      # a facility's site is a site the slice uses
            continue
        caps = js(n, 'Capacities')
        if caps:
            out['cpu'].append(caps.get('core', 0))
            out['ram'].append(caps.get('ram', 0))
            out['disk'].append(caps.get('disk', 0))
        if d.get('Site'):
            out['sites'].add(d['Site'])
        if d['Type'] == 'Switch':
            out['switches'] += 1
        if d['Type'] == 'VM':
            out['vms'] += 1
            out['cores'] += caps.get('core', 0)
        for c in raw.nb(n, 'has', COMP):
            out['comp'].append(raw.typ(c))
    for s in raw.by_class(NS):
        d = raw.nodes[s]
        caps = js(s, 'Capacities')
        if caps:
            out['bw'].append(caps.get('bw', 0))
        out['services'].append((d['Type'], caps.get('bw', 0) if caps else 0))
        if d.get('Site'):
            out['sites'].add(d['Site'])
        if d['Type'] == 'FABNetv4Ext':
            out['v4'].add(d.get('Site'))
        if d['Type'] == 'FABNetv6Ext':
            out['v6'].add(d.get('Site'))
        if d['Type'] == 'PortMirror':
            out['mirror_all'].add(d.get('Site'))
            if d.get('MirrorPort') not in in_slice:
                out['mirror_out'].add(d.get('Site'))
    return out


def canon_attrs(a):
    return {k: sorted(v, key=repr) for k, v in dict(a).items()}


def eval_slice(case):
    nodes_cfg, services, facility = tuple(tuple(x) for x in case[0]), tuple(tuple(x) for x in case[1]), case[2]
    v = []
    ctx = f'[nodes {nodes_cfg} services {services} facility {facility}]'
    nperm = list(itertools.permutations(range(len(nodes_cfg))))
    sperm = list(itertools.permutations(range(len(services))))
    seen = {}
    first = None
    # history: other collectors were used in this process before (for another slice) - a fresh collector starts empty
    try:
        decoy = build((('S9', 'gpu'),), (('bridge', 0),), (0,), (0,), True)
        decoy.validate()
        AZ().collect_resource_attributes(source=decoy)
        LogCollector().collect_resource_attributes(source=decoy)
        fresh = LogCollector().attributes
        if any(fresh[k] for k in ('nodes', 'components', 'services', 'facilities', 'sites')) or fresh['vm_count'] or fresh['core_count']:
            v.append(('accounting/fresh-collector-not-empty', f'a new LogCollector already reports {dict(fresh)} {ctx}'))
        if any(val for key, val in AZ().attributes.items() if key != AZ.RESOURCE_TYPE):        # (the type defaults to 'sliver')
            v.append(('tally/fresh-collector-not-empty', f'a new ResourceAuthZAttributes already reports {dict(AZ().attributes)} {ctx}'))
    except Exception as e:
        v.append((f'raises/decoy/{type(e).__name__}', f'{e} {ctx}'))
    for no in nperm:
        for so in sperm:
            try:
                t = build(nodes_cfg, services, no, so, facility)
                t.validate()
                az = AZ()
                az.collect_resource_attributes(source=t)
                attrs = canon_attrs(az.attributes)
                az2 = AZ()
                az2.collect_resource_attributes(source=t.graph_model)
                attrs2 = canon_attrs(az2.attributes)
                lc = LogCollector()
                lc.collect_resource_attributes(source=t)
                la = dict(lc.attributes)
                tl = tally(t)
                raw_attrs = dict(az.attributes)
                pdp = az.transform_to_pdp_request(as_json=False)
                pdp_json = az.transform_to_pdp_request(as_json=True)
            except Exception as e:
                import traceback
                v.append((f'raises/{type(e).__name__}', f'{type(e).__name__}: {e} order nodes={no} services={so} {ctx} {traceback.format_exc(limit=2)}'))
                continue
            o = f'order nodes={no} services={so}'
            if sorted(b for b in tl['bw'] if b) != requested_bw(services):
                v.append(('built-model/bw-differs-from-request', f'the model holds service bandwidths {sorted(b for b in tl["bw"] if b)}, '
                          f'requested {requested_bw(services)} {o} {ctx}'))

            def cmp_multi(attr, want, what):
                got = sorted(raw_attrs.get(attr, []))
                if got != sorted(want):
                    v.append((f'tally/{what}', f'{what}: attribute lists {got}, the slice holds {sorted(want)} {o} {ctx}'))
            cmp_multi(AZ.RESOURCE_CPU, tl['cpu'], 'cpu')
            cmp_multi(AZ.RESOURCE_RAM, tl['ram'], 'ram')
            cmp_multi(AZ.RESOURCE_DISK, tl['disk'], 'disk')
            cmp_multi(AZ.RESOURCE_BW, tl['bw'], 'bw')
            cmp_multi(AZ.RESOURCE_COMPONENT, tl['comp'], 'component')
            cmp_multi(AZ.RESOURCE_FACILITY_PORT, tl['fac'], 'facility')

            def cmp_set(attr, want, what, superset_ok=False):
                got = raw_attrs.get(attr, [])
                if len(got) != len(set(got)):
                    v.append((f'tally/{what}-duplicates', f'{what}: {got} {o} {ctx}'))
                missing = set(want) - set(got)
                extra = set(got) - set(want)
                if missing:
                    v.append((f'tally/{what}-missing', f'{what}: attribute lists {sorted(got)}, must name {sorted(want)} {o} {ctx}'))
                if extra and not superset_ok:
                    v.append((f'tally/{what}-extra', f'{what}: attribute lists {sorted(got)}, the slice has only {sorted(want)} {o} {ctx}'))
            cmp_set(AZ.RESOURCE_SITE, tl['sites'], 'site')
            cmp_set(AZ.RESOURCE_FABNETV4_EXT, tl['v4'], 'fabnetv4-ext-site')
            cmp_set(AZ.RESOURCE_FABNETV6_EXT, tl['v6'], 'fabnetv6-ext-site')
            got_m = set(raw_attrs.get(AZ.RESOURCE_MIRROR_SITE, []))
            if tl['mirror_out'] - got_m:
                v.append(('tally/mirror-site-missing', f'mirror sites {sorted(got_m)} do not name {sorted(tl["mirror_out"])} (port mirrors of ports outside the slice) {o} {ctx}'))
            if got_m - tl['mirror_all']:
                v.append(('tally/mirror-site-extra', f'mirror sites {sorted(got_m)} but mirrors exist only at {sorted(tl["mirror_all"])} {o} {ctx}'))
            # a slice holding a P4 switch is a request for one, wherever the switch is stored
            want_rt = ['switch-p4'] if tl['switches'] else ['sliver']
            if raw_attrs.get(AZ.RESOURCE_TYPE) != want_rt:
                v.append(('tally/resource-type', f'{raw_attrs.get(AZ.RESOURCE_TYPE)} expected {want_rt} {o} {ctx}'))
            for k2, val in raw_attrs.items():
                if len(val) == 0:
                    v.append(('pdp/empty-attribute', f'{k2} listed with no values {o} {ctx}'))
            # same attributes whichever source
            if attrs != attrs2:
                diff = {k: (attrs.get(k), attrs2.get(k)) for k in set(attrs) | set(attrs2) if attrs.get(k) != attrs2.get(k)}
                v.append(('sources-disagree', f'topology vs serialized model: {diff} {o} {ctx}'))
            # PDP request
            seen_ids = []
            for cat in pdp['Request']['Category']:
                for a in cat['Attribute']:
                    seen_ids.append(a['AttributeId'])
                    dt, cid = AZ.ATTRIBUTE_TYPES_AND_CATEGORIES[a['AttributeId']]
                    if a['DataType'] != dt or cat['CategoryId'] != cid:
                        v.append(('pdp/category-or-type', f"{a['AttributeId']} in {cat['CategoryId']} as {a['DataType']} {ctx}"))
                    if sorted(a['Value'], key=repr) != attrs[a['AttributeId']]:
                        v.append(('pdp/value', f"{a['AttributeId']} {ctx}"))
            if sorted(seen_ids) != sorted(raw_attrs.keys()):
                v.append(('pdp/attribute-set', f'request carries {sorted(seen_ids)}, collected {sorted(raw_attrs)} {ctx}'))
            if json.loads(pdp_json) != pdp:
                v.append(('pdp/json-vs-dict', ctx))
            # accounting summary
            if la['vm_count'] != tl['vms'] or la['core_count'] != tl['cores'] or la['p4_count'] != tl['switches']:
                v.append(('accounting/compute', f"vms {la['vm_count']}/{tl['vms']} cores {la['core_count']}/{tl['cores']} p4 {la['p4_count']}/{tl['switches']} {o} {ctx}"))
            want_c = {}
            for c in tl['comp']:
                want_c[c] = want_c.get(c, 0) + 1
            if la['components'] != want_c:
                v.append(('accounting/components', f"{la['components']} vs {want_c} {o} {ctx}"))
            if sorted(la['services']) != sorted(tl['services']):
                v.append(('accounting/services', f"{sorted(la['services'])} vs {sorted(tl['services'])} {o} {ctx}"))
            if set(la['sites']) != tl['sites'] or set(la['facilities']) != set(tl['fac']):
                v.append(('accounting/sites-facilities', f"{la['sites']} {la['facilities']} vs {tl['sites']} {tl['fac']} {o} {ctx}"))
            # order independence
            key = json.dumps(attrs, sort_keys=True, default=str)
            if first is None:
                first = (key, attrs, o)
            elif key != first[0]:
                diff = {k: (first[1].get(k), attrs.get(k)) for k in set(attrs) | set(first[1]) if attrs.get(k) != first[1].get(k)}
                what = '+'.join(sorted(k.rsplit(':', 1)[-1] for k in diff))
                v.append((f'order-dependent/{what}', f'{first[2]} gives {({k: a for k, (a, b) in diff.items()})}, {o} gives '
                                                     f'{({k: b for k, (a, b) in diff.items()})} {ctx}'))
            seen[key] = seen.get(key, 0) + 1
    kinds = '+'.join(sorted({k for k, _ in services})) or 'none'
    return {'v': v, 'nt': (nodes_cfg, services, facility), 'out': kinds, 'tags': {f'perms{len(nperm) * len(sperm)}'}}


def descriptions(tier):
    out = []
    cfgs = (NODE_CONFIGS_Q if tier == 'quick' else NODE_CONFIGS_T) + NODE_CONFIGS_SIZING + NODE_CONFIGS_P4
    maxs = 3 if tier == 'quick' else 4
    for ci, cfg in enumerate(cfgs):
        opts = [(kd, k) for k in range(len(cfg)) for kd in KINDS if cfg[k][1] != 'p4']
        for size in range(0, maxs + 1):
            if tier == 'quick' and cfg in NODE_CONFIGS_SIZING and size > 2:
                continue
            if cfg in NODE_CONFIGS_P4 and size > (1 if tier == 'quick' else 2):
                continue
            if tier == 'quick' and size == 3:
                # quick: three services (up to 12 creation orders) only on the two-site configuration and only for the
                # kinds whose handling interacts (bridge / in-slice mirror / out-of-slice mirror)
                if ci != 3:
                    continue
                pool = [(kd, k) for kd, k in opts if kd in ('bridge', 'pm_in', 'pm_out')]
            elif tier != 'quick' and size == 4:
                # thorough: four services (48 creation orders) on the two-site two-node configuration, interacting kinds only
                if ci != 3:
                    continue
                pool = [(kd, k) for kd, k in opts if kd in ('bridge', 'pm_in', 'pm_out', 'v4ext')]
            elif tier != 'quick' and size == 3 and len(cfg) == 3:
                pool = [(kd, k) for kd, k in opts if kd in ('bridge', 'pm_in', 'pm_out', 'v4ext')]
            else:
                pool = opts
            for ms in itertools.combinations_with_replacement(pool, size):
                per = {}
                for kd_, k in ms:
                    per[k] = per.get(k, 0) + (2 if kd_ == 'v4ext2' else 1)
                if any(c > 2 for c in per.values()):
                    continue           # a SmartNIC has two ports
                if any(kd == 'pm_in' for kd, _ in ms) and not any(kd == 'bridge' for kd, _ in ms):
                    continue           # an in-slice mirror needs a labelled service port in the slice
                for fac in ((False, True, 'l3vpn') if size <= 1 else (False,)):
                    out.append((cfg, ms, fac))
    return out


REPLAY = {'slices': eval_slice}


def run(report):
    cases = descriptions(report.tier)
    g = explore_cases(report, 'slices', eval_slice, cases, chunk=4,
                      rule='slice descriptions (1-3 nodes on two sites with distinct cpu/ram/disk and component mixes; 0-3 (thorough 4) '
                           'services from {bridge with bw and a named service port, bridge with a vlan-tagged unnamed service port, FABNetv4Ext, FABNetv6Ext, in-slice port mirror, out-of-slice port mirror} '
                           'per node, with repetition; optional facility) x ALL permutations of node and service creation order; '
                           'each build is validated, collected from the topology and from its serialized model, and compared with an '
                           'independent tally of the stored graph; one case = one description with all its orders')
    report.require(any('pm_in' in k and 'pm_out' in k for k in g['outcomes']), 'in-slice and out-of-slice mirrors in one slice')
    report.require(g['tags'].get('perms12', 0) > 0, 'descriptions with 12 creation orders')
    report.assumptions += ['"in the slice" = the mirrored port name equals the local_name label of a service port facing a node '
                           'interface of the slice (how the library documents it)',
                           'mirror sites: must name every out-of-slice mirror site and nothing but mirror sites; in-slice mirror '
                           'sites are exempt, so only order-independence constrains them further']
