"""C16 - label, tag, name and data validation holds on every construction path.  Engine E2.

Candidate strings: all strings over a small field alphabet up to a length bound (short formats) and the complete
edit-distance-1 neighbourhood of seed members (long formats), each pushed through every entry point.
Oracle: hand-written recognisers (no `re`) of the documented languages - the VALIDATORS pattern under whole-string
matching, the LAMBDA_VALIDATORS range, the tag / name patterns, the size limits.
"""
import itertools
import json

from fim.slivers.capacities_labels import Labels, Capacities
from fim.slivers.tags import Tags
from fim.slivers.json_data import MeasurementData, UserData, LayoutData
from fim.slivers.delegations import Delegations, DelegationType
from fim.slivers.network_node import NodeSliver, NodeType
from fim.slivers.attached_components import ComponentSliver
from fim.slivers.network_service import NetworkServiceSliver, ServiceType
from fim.slivers.interface_info import InterfaceSliver
from fim.slivers.network_link import NetworkLinkSliver
from fim.user.topology import ExperimentTopology
from fim.user.component import ComponentModelType

from fimmc import world
from fimmc.engine import explore_cases

LEVEL = 'exploration'
HEX = set('0123456789abcdefABCDEF')
DIG = set('0123456789')


# ------------------------------------------------------------------------------------------ recognisers
def is_hex(s, lo, hi):
    return lo <= len(s) <= hi and all(c in HEX for c in s)


def is_digits(s, lo, hi):
    return lo <= len(s) <= hi and all(c in DIG for c in s)


def wordch(c):
    return c.isalnum() or c == '_'


def octet(s):
    # 25[0-5]|2[0-4][0-9]|[01]?[0-9][0-9]?
    if not is_digits(s, 1, 3):
        return False
    if len(s) == 3:
        return s[0] in '01' or (s[0] == '2' and (s[1] in '01234' or (s[1] == '5' and s[2] in '012345')))
    return True


def ipv4(s):
    p = s.split('.')
    return len(p) == 4 and all(octet(x) for x in p)


def ipv6(s):
    p = s.split(':')
    return 1 <= len(p) <= 8 and all(is_hex(x, 0, 4) for x in p)


def two(s, sep, f, g):
    i = s.find(sep)
    # the first part's language never contains sep, so the split point is the first occurrence
    return i >= 0 and f(s[:i]) and g(s[i + 1:])


def bdf(s):
    # PCI address domain:bus:device.function as documented by the example "0000:00:00.0" (hex digits, a literal dot)
    p = s.split(':', 2)
    if len(p) != 3 or not is_hex(p[0], 1, 4) or not is_hex(p[1], 2, 2):
        return False
    r = p[2]
    return len(r) >= 4 and is_hex(r[:2], 2, 2) and r[2] == '.' and is_hex(r[3:], 1, 10 ** 6)


def mac(s):
    p = s.split(':')
    return len(p) == 6 and all(is_hex(x, 2, 2) for x in p)


def charset(extra, lo, hi):
    def f(s):
        return lo <= len(s) <= hi and all(wordch(c) or c in extra for c in s)
    return f


def vlan_ok(s):
    return is_digits(s, 1, 4) and 0 <= int(s) <= 4096


def vlan_range(s):
    i = s.find('-')
    if i < 0:
        return False
    a, b = s[:i], s[i + 1:]
    return is_digits(a, 1, 4) and is_digits(b, 1, 4) and int(a) <= 4096 and int(b) <= 4096 and int(a) <= int(b)


def asn(s):
    return is_digits(s, 1, 10 ** 6) and 0 < int(s) < 2 ** 32


def usb(s):
    lo = set('0123456789abcdef')
    p = s.split(':')
    return len(p) == 2 and all(len(x) == 4 and all(c in lo for c in x) for x in p)


def canonical_int(s):
    if s == '0':
        return True
    t = s[1:] if s.startswith('-') else s
    return len(t) >= 1 and t[0] in '123456789' and all(c in DIG for c in t)


def numa(s):
    """three-valued: canonical decimals are decided by the documented range; anything int() might still parse
    (blanks, '+', '_', leading zeros) is unspecified; the rest must be rejected"""
    if canonical_int(s):
        return -1 <= int(s) < 8
    try:
        int(s)
        return None
    except Exception:
        return False


RECOGNISERS = {
    'bdf': bdf, 'mac': mac, 'ipv4': ipv4,
    'ipv4_range': lambda s: two(s, '-', ipv4, ipv4),
    'ipv4_subnet': lambda s: two(s, '/', ipv4, lambda t: is_digits(t, 1, 2)),
    'ipv6': ipv6,
    'ipv6_range': lambda s: two(s, '-', ipv6, ipv6),
    'ipv6_subnet': lambda s: two(s, '/', ipv6, lambda t: is_digits(t, 1, 2)),
    'asn': asn, 'vlan': vlan_ok, 'inner_vlan': vlan_ok, 'vlan_range': vlan_range,
    'bgp_key': charset('-+_/.:', 6, 150), 'account_id': charset('-/.', 3, 100), 'region': charset('-.', 3, 100),
    'usb_id': usb, 'numa': numa,
}
GOOD = {'bdf': '0000:41:00.0', 'mac': '00:11:22:33:44:55', 'ipv4': '192.168.1.1', 'ipv4_range': '10.0.0.1-10.0.0.9',
        'ipv4_subnet': '10.0.0.0/24', 'ipv6': 'fe80::1', 'ipv6_range': '::1-::2', 'ipv6_subnet': 'fe80::/64',
        'asn': '65000', 'vlan': '100', 'inner_vlan': '7', 'vlan_range': '1-2', 'bgp_key': 'abcdef', 'account_id': 'abc',
        'region': 'abc', 'usb_id': '1234:abcd', 'numa': '0'}
# two further valid values per field, lexicographically small / large, so that a candidate sits strictly between them
LOHI = {'vlan': ('0', '999'), 'inner_vlan': ('0', '999'), 'asn': ('1', '99999'), 'numa': ('-1', '7'), 'vlan_range': ('0-1', '9-99'),
        'bdf': ('0:00:00.0', 'ffff:ff:ff.f'), 'mac': ('00:00:00:00:00:00', 'ff:ff:ff:ff:ff:ff'), 'ipv4': ('0.0.0.0', '99.99.99.99'),
        'ipv4_range': ('0.0.0.0-0.0.0.0', '99.0.0.0-99.0.0.0'), 'ipv4_subnet': ('0.0.0.0/0', '99.0.0.0/8'),
        'ipv6': ('0::', 'ffff::'), 'ipv6_range': ('0::-0::', 'ffff::-ffff::'), 'ipv6_subnet': ('0::/1', 'ffff::/64'),
        'bgp_key': ('------', 'zzzzzz'), 'account_id': ('---', 'zzz'), 'region': ('---', 'zzz'), 'usb_id': ('0000:0000', 'ffff:ffff')}
SHORT = {   # exhaustive short strings: alphabet, max length quick, max length thorough
    'vlan': ('0149-a \n', 4, 5), 'inner_vlan': ('0149-a \n', 4, 5), 'asn': ('01429-a \n', 4, 5),
    'numa': ('0178-+ \n', 3, 4), 'vlan_range': ('0149-\n', 5, 6), 'usb_id': ('0af:A\n', 0, 0),
}
SEEDS = {
    'bdf': (['0000:41:00.0', 'a:00:1f.7'], '0fF:.g \n'),
    'mac': (['00:11:22:33:44:55', 'aa:BB:cc:DD:ee:FF'], '0aF:g-\n'),
    'ipv4': (['192.168.1.1', '255.255.255.255', '0.0.0.0', '249.199.99.9'], '01256.a/-\n '),
    'ipv4_range': (['192.168.1.1-192.168.1.10'], '0125.-/\n'),
    'ipv4_subnet': (['192.168.1.0/24', '10.0.0.0/8'], '0125./-9\n'),
    'ipv6': (['2001:0db8:85a3:0000:0000:8a2e:0370:7334', '::1', 'fe80::1'], '0fF:g.\n'),
    'ipv6_range': (['2001:db8::1-2001:db8::ff'], '0f:-g\n'),
    'ipv6_subnet': (['2001:0db8:85a3:0000:0000/48', 'fe80::/64'], '0f:/9g\n'),
    'asn': (['12345', '4294967295', '4294967296', '1'], '019a-\n'),
    'vlan': (['4095', '4096', '4097', '0', '9999', '10000'], '0149\n'),
    'inner_vlan': (['4096', '4097'], '019\n'),
    'vlan_range': (['100-200', '4096-4096', '0-4097', '200-100'], '019-\n'),
    'bgp_key': (['abcde', 'abcdef', 'secret-key+1/2.3:4', 'x' * 150, 'x' * 151], 'a_-+/.:@ \n'),
    'account_id': (['ab', 'abc', '123456789012', 'acc/1.2', 'y' * 100, 'y' * 101], 'a-/.+:\n'),
    'region': (['ab', 'abc', 'us-east-1', 'z' * 100, 'z' * 101], 'a-./\n'),
    'usb_id': (['1234:abcd', '0000:ffff'], '0afA:g\n'),
    'numa': (['-1', '0', '7', '8', '-2'], '0178-\n'),
}


def neighbourhood(seed, alphabet):
    out = {seed}
    for i in range(len(seed)):
        out.add(seed[:i] + seed[i + 1:])
        for c in alphabet:
            out.add(seed[:i] + c + seed[i + 1:])
    for i in range(len(seed) + 1):
        for c in alphabet:
            out.add(seed[:i] + c + seed[i:])
    return out


def label_candidates(tier):
    cases = []
    for f in RECOGNISERS:
        cand = set()
        if f in SHORT:
            alpha, lq, lt = SHORT[f]
            L = lq if tier == 'quick' else lt
            for n in range(0, L + 1):
                for t in itertools.product(alpha, repeat=n):
                    cand.add(''.join(t))
        seeds, alpha = SEEDS[f]
        for s in seeds:
            if tier == 'quick' and len(s) > 60:
                cand.add(s)
                cand |= {s[:-1], s + s[0], s + '\n', '\n' + s, s[:3] + '@' + s[4:]}
            else:
                cand |= neighbourhood(s, alpha)
        for s in sorted(cand):
            cases.append((f, s))
    return cases


# ------------------------------------------------------------------------------------------ live topology for element-level entry points
_TOPO = None


def topo():
    global _TOPO
    if _TOPO is None:
        world.reset_all()
        t = ExperimentTopology()
        n = t.add_node(name='n1', site='S1')
        c = n.add_component(name='c1', model_type=ComponentModelType.SmartNIC_ConnectX_6)
        s = t.add_network_service(name='s1', nstype=ServiceType.L2Bridge, interfaces=[])
        _TOPO = t
    return _TOPO


def eval_label(case):
    f, s = case[0], case[1]
    verdict = RECOGNISERS[f](s)
    v = []
    good = GOOD[f]

    def attempt(name, fn, stored):
        """fn() performs the entry; stored() returns what ended up stored (or None)"""
        try:
            fn()
            raised = None
        except Exception as e:
            raised = type(e).__name__
        try:
            st = stored()
        except Exception as e:
            st = ('stored() failed', repr(e))
        if verdict is False:
            if raised is None:
                v.append((f'accepts-outside/{f}/{name}', f'{name}: {f}={s!r} is outside the documented domain but was accepted (stored {st!r})'))
            elif st is not None and _contains(st, s):
                v.append((f'stored-after-reject/{f}/{name}', f'{name}: {f}={s!r} was rejected ({raised}) but is stored: {st!r}'))
        elif verdict is True:
            if raised is not None:
                v.append((f'rejects-inside/{f}/{name}', f'{name}: {f}={s!r} is inside the documented domain but raised {raised}'))
            elif not _contains(st, s):
                v.append((f'not-stored-verbatim/{f}/{name}', f'{name}: {f}={s!r} accepted but stored as {st!r}'))
        return raised

    box = {}

    def ctor():
        box['x'] = None
        box['x'] = Labels(**{f: s})
    attempt('constructor', ctor, lambda: getattr(box['x'], f) if box.get('x') is not None else None)

    def setf():
        box['y'] = Labels()
        box['y']._set_fields(**{f: s})
    attempt('_set_fields', setf, lambda: getattr(box['y'], f))

    def upd():
        box['z'] = None
        base = Labels(local_name='keep')
        box['base'] = base
        box['z'] = Labels.update(base, **{f: s})
    attempt('update', upd, lambda: getattr(box['z'], f) if box.get('z') is not None else getattr(box['base'], f))
    lo, hi = LOHI[f]
    for nm, lst in (('list-single', [s]), ('list-first', [s, good]), ('list-last', [good, s]), ('list-middle', [good, s, good]),
                    ('list-between', [lo, s, hi]), ('list-between-rev', [hi, s, lo]), ('list-long', [lo, good, hi, s, good, lo, hi])):
        def lf(lst=lst):
            box['l'] = None
            box['l'] = Labels(**{f: list(lst)})
        attempt(nm, lf, lambda: getattr(box['l'], f) if box.get('l') is not None else None)

    def fj():
        box['j'] = None
        box['j'] = Labels.from_json(json.dumps({f: s}))
    attempt('from_json', fj, lambda: getattr(box['j'], f) if box.get('j') is not None else None)

    def fjl():
        box['jl'] = None
        box['jl'] = Labels.from_json(json.dumps({'local_name': 'p', f: [good, s]}))
    attempt('from_json-list', fjl, lambda: getattr(box['jl'], f) if box.get('jl') is not None else None)

    def dele():
        box['d'] = None
        txt = json.dumps({'del1': {'pool_id': '_', 'labels': {f: s}}})
        box['d'] = Delegations.from_json(json_str=txt, atype=DelegationType.LABEL)
    attempt('delegation-details', dele,
            lambda: getattr(box['d'].get_by_delegation_id('del1').get_details(), f) if box.get('d') is not None else None)
    # model element: update_labels on a live node; what is stored is read back from the model graph
    try:
        t = topo()
        n = t.nodes['n1']
    except Exception:
        _reset_topo()              # a value stored by an earlier case made the shared scratch topology unreadable
        t = topo()
        n = t.nodes['n1']
    n.set_property('labels', Labels(local_name='keep'))

    def ul():
        n.update_labels(**{f: s})
    attempt('element.update_labels', ul, lambda: getattr(t.nodes['n1'].labels, f))
    # an object that was valid when built and had this field assigned afterwards, then put on an element / a sliver
    def edited():
        lab = Labels(local_name='keep')
        setattr(lab, f, s)
        return lab
    n.set_property('labels', Labels(local_name='keep'))

    def assign():
        n.labels = edited()
    attempt('element.assign-edited-object', assign, lambda: getattr(t.nodes['n1'].labels, f))

    def sliver_set():
        box['sl'] = NodeSliver()
        box['sl'].set_labels(edited())
    attempt('sliver.set_labels-edited-object', sliver_set, lambda: getattr(box['sl'].get_labels(), f) if box.get('sl') is not None and box['sl'].get_labels() is not None else None)
    # ... as the details of a delegation / a pool
    def deleg_set():
        from fim.slivers.delegations import Delegation, Pool
        box['dd'] = Delegation(atype=DelegationType.LABEL, delegation_id='d1')
        box['dd'].set_details(edited())
    attempt('delegation.set_details-edited-object', deleg_set,
            lambda: getattr(box['dd'].get_details(), f) if box.get('dd') is not None and box['dd'].get_details() is not None else None)

    def pool_set():
        from fim.slivers.delegations import Pool
        box['pp'] = Pool(atype=DelegationType.LABEL, pool_id='p1', delegation_id='d1', defined_on='n1', defined_for=['n2'])
        box['pp'].set_pool_details(edited())
    attempt('pool.set_pool_details-edited-object', pool_set,
            lambda: getattr(box['pp'].get_pool_details(), f) if box.get('pp') is not None and box['pp'].get_pool_details() is not None else None)
    if f == 'mac':
        def gw():
            from fim.slivers.gateway import Gateway
            lab = Labels(ipv4_subnet='10.0.0.0/24', ipv4='10.0.0.1')
            lab.mac = s
            box['gw'] = None
            box['gw'] = Gateway(lab)
        attempt('gateway-edited-object', gw, lambda: box['gw'].mac if box.get('gw') is not None else None)
    # whatever was accepted can be encoded and decoded again
    if box.get('x') is not None:
        try:
            back = Labels.from_json(box['x'].to_json())
            if back is None or getattr(back, f) != s:
                v.append((f'accepted-not-reencodable/{f}', f'{f}={s!r} accepted, encoded as {box["x"].to_json()!r}, decoded as {None if back is None else getattr(back, f)!r}'))
        except Exception as e:
            v.append((f'accepted-not-reencodable/{f}', f'{f}={s!r} accepted but decode(encode) raised {type(e).__name__}: {e}'))
    if v:
        _reset_topo()              # do not carry a value that should not have been stored into the next case
    return {'v': v, 'nt': (f, s), 'out': f'{f}:{verdict}'}


def _contains(stored, s):
    if isinstance(stored, list):
        return s in stored
    return stored == s


# ------------------------------------------------------------------------------------------ tags, names, sizes, capacities
def tag_ok(s):
    return isinstance(s, str) and 1 <= len(s) <= 255 and all(wordch(c) or c == '-' for c in s)


NAME_RULES = {
    'node': (NodeSliver, '-.', 2), 'component': (ComponentSliver, '-_. ', 2), 'service': (NetworkServiceSliver, '-_.', 2),
    'interface': (InterfaceSliver, '-+_/. :', 1), 'link': (NetworkLinkSliver, '-+_/. :', 2),
}


def name_ok(kind, s):
    _, extra, lo = NAME_RULES[kind]
    return lo <= len(s) <= 255 and all(wordch(c) or c in extra for c in s)


def misc_cases(tier):
    cases = []
    tag_c = {'', 'a', 'a' * 255, 'a' * 256, 'a-b_c', 'a b', 'a\n', '\na', 'a.b', 'é', 'a/b', '-', '_', 'ab\n', 'a' * 254 + '\n'}
    tag_c |= neighbourhood('ab-1', 'a-_ .\n/')
    for s in sorted(tag_c):
        cases.append(('tag', s))
    for kind in NAME_RULES:
        nm = {'', 'a', 'ab', 'a' * 255, 'a' * 256, 'ab\n', 'a\n', '\nab', 'a b', 'a.b', 'a-b', 'a_b', 'a+b', 'a/b', 'a:b', 'a@b', 'é1',
              'a' * 254 + '\n', 'a\tb', 'n1x'}
        nm |= neighbourhood('ab1', 'a -+/:.@\n')
        for s in sorted(nm):
            cases.append(('name', kind, s))
    for n in (0, 1, 1022, 1023, 1024, 1025, 5000):   # the documented limit: shorter than BOOST_SCRIPT_SIZE (1024) characters
        cases.append(('boot', n))
    for cls in ('MeasurementData', 'UserData', 'LayoutData'):
        for delta in (-2, -1, 0, 1, 2, 1000):      # delta 0 (exactly the limit): either verdict, but it must be consistent
            for form in ('str', 'obj', 'str-compact', 'str-nonascii'):
                cases.append(('blob', cls, form, delta))
        cases.append(('blob-invalid', cls))
    for val in (-1, 0, 1, 2 ** 40, 1.5, '1', -2 ** 40):
        for f in ('core', 'bw', 'mtu'):
            cases.append(('cap', f, val))
    return cases


def eval_misc(case):
    kind = case[0]
    v = []
    if kind == 'tag':
        s = case[1]
        ok = tag_ok(s)
        entries = {
            'varargs': lambda: Tags(s).tags,
            'varargs-last': lambda: Tags('good', s).tags,
            'list': lambda: Tags([s]).tags,
            'list-last': lambda: Tags(['good', 'x2', s]).tags,
            'tuple': lambda: Tags(('good', s)).tags,
            'from_json': lambda: Tags.from_json(json.dumps(['good', s])).tags,
            'element.tags': lambda: _elem_tags(s),
            # a Tags object whose (public) list was extended after it was built, then put on a sliver / an element
            'sliver.set_tags-edited-object': lambda: _sliver_tags_edited(s),
            'element.tags-edited-object': lambda: _elem_tags(s, edited=True),
        }
        for nm, fn in entries.items():
            try:
                st = fn()
                raised = None
            except Exception as e:
                raised, st = type(e).__name__, None
            if not ok and raised is None:
                v.append((f'accepts-outside/tag/{nm}', f'{nm}: tag {s!r} is outside the documented pattern/length but was accepted ({st!r})'))
            if ok and raised is not None:
                v.append((f'rejects-inside/tag/{nm}', f'{nm}: tag {s!r} is valid but raised {raised}'))
            if ok and raised is None and s not in st:
                v.append((f'not-stored-verbatim/tag/{nm}', f'{nm}: {s!r} stored as {st!r}'))
            if not ok and raised is None:
                _reset_topo()          # do not carry a value that should not have been stored into the next entry / case
        return {'v': v, 'nt': case, 'out': f'tag:{ok}'}
    if kind == 'name':
        _, k, s = case
        cls = NAME_RULES[k][0]
        ok = name_ok(k, s)
        entries = {'set_name': lambda: _sl(cls, 'set_name', s), 'set_properties': lambda: _sl(cls, 'props', s),
                   'set_property': lambda: _sl(cls, 'prop', s)}
        # decoding from text: the dictionary / JSON form of a sliver of this kind with the name replaced
        entries['from_dict'] = lambda: _decode_name(k, s, 'dict')
        if k in ('node', 'service'):
            entries['from_json'] = lambda: _decode_name(k, s, 'json')
        if k == 'component':
            entries['from_json-nested'] = lambda: _decode_name(k, s, 'nested')
        if k in ('node', 'component', 'service', 'interface'):
            entries['create'] = lambda: _create(k, s)
            if k == 'component':
                entries['create-nic'] = lambda: _create_nic(s)       # a component that brings its own service and ports
            entries['rename'] = lambda: _rename(k, s)
            entries['name-assign'] = lambda: _rename(k, s, assign=True)
        for nm, fn in entries.items():
            _reset_topo()
            try:
                st = fn()
                raised = None
            except Exception as e:
                raised, st = type(e).__name__, None
            if raised == 'HandleKeptRejectedName':
                v.append((f'stored-after-reject/name/{k}/handle/{nm}', f'{nm}: {k} name {s!r} was rejected but the element handle kept it'))
            if not ok and raised is None:
                v.append((f'accepts-outside/name/{k}/{nm}', f'{nm}: {k} name {s!r} is outside the documented pattern but was accepted (stored {st!r})'))
            if ok and raised is not None:
                v.append((f'rejects-inside/name/{k}/{nm}', f'{nm}: {k} name {s!r} is valid but raised {raised}'))
            if ok and raised is None and st != s:
                v.append((f'not-stored-verbatim/name/{k}/{nm}', f'{nm}: {s!r} stored as {st!r}'))
        if not ok:
            # nothing outside the domain may be stored in the model after the rejected element-level calls
            t = topo()
            names = [d.get('Name') for _, d in world.shared_store().graphs.nodes(data=True)]
            if s in names:
                v.append((f'stored-after-reject/name/{k}', f'{s!r} is stored in the model: {names}'))
        _reset_topo()
        return {'v': v, 'nt': case, 'out': f'name:{k}:{ok}'}
    if kind == 'boot':
        n = case[1]
        s = '#' * n
        must = True if n <= 1023 else False
        for nm, fn in {'sliver': lambda: _boot_sliver(s), 'element': lambda: _boot_elem(s), 'create': lambda: _boot_create(s)}.items():
            try:
                st = fn()
                raised = None
            except BaseException as e:
                raised, st = type(e).__name__, None
            if must and raised is not None:
                v.append((f'rejects-inside/boot_script/{nm}', f'{nm}: {n}-char boot script raised {raised}'))
            if not must and raised is None:
                v.append((f'accepts-outside/boot_script/{nm}', f'{nm}: {n}-char boot script accepted (limit 1024)'))
            if must and raised is None and st != s:
                v.append((f'not-stored-verbatim/boot_script/{nm}', f'{nm}: stored {None if st is None else len(st)} chars'))
        _reset_topo()
        return {'v': v, 'nt': case, 'out': f'boot:{must}'}
    if kind in ('blob', 'blob-invalid'):
        cls = {'MeasurementData': MeasurementData, 'UserData': UserData, 'LayoutData': LayoutData}[case[1]]
        if kind == 'blob-invalid':
            for nm, arg in (('invalid-json-text', '{"a": '), ('non-serialisable-object', {'a': {1, 2}}), ('bare-text', 'hello')):
                try:
                    cls(arg)
                    v.append((f'accepts-outside/{case[1]}/{nm}', f'{case[1]}({arg!r}) accepted'))
                except Exception:
                    pass
            return {'v': v, 'nt': case, 'out': 'blob-invalid'}
        _, cname, form, delta = case
        size = cls.MAX_SIZE + delta
        if form == 'str-compact':
            # valid JSON text written without blanks after separators (re-encoding it would make it longer)
            head = '{"a":[' + ','.join(['1'] * 40) + '],"k":"'
            text = head + 'x' * (size - len(head) - 2) + '"}'
        elif form == 'str-nonascii':
            text = '{"k": "' + 'é' * (size - len('{"k": ""}')) + '"}'
        else:
            text = '{"k": "' + 'x' * (size - len('{"k": ""}')) + '"}'
            assert json.dumps(json.loads(text)) == text
        assert len(text) == size
        json.loads(text)
        arg = json.loads(text) if form == 'obj' else text
        must = None if size == cls.MAX_SIZE else size < cls.MAX_SIZE
        entries = {'constructor': lambda: cls(arg).json}
        attr = {'MeasurementData': 'mf_data', 'UserData': 'user_data', 'LayoutData': 'layout_data'}[cname]
        entries['element'] = lambda: _elem_blob(attr, arg)
        for nm, fn in entries.items():
            try:
                st = fn()
                raised = None
            except Exception as e:
                raised, st = type(e).__name__, None
            if must is True and raised is not None:
                v.append((f'rejects-inside/{cname}/{form}/{nm}', f'{size}-byte blob (limit {cls.MAX_SIZE}) raised {raised}'))
            if must is False and raised is None:
                v.append((f'accepts-outside/{cname}/{form}/{nm}', f'{size}-byte blob accepted (limit {cls.MAX_SIZE})'))
            if must is not False and raised is None and json.loads(st) != json.loads(text):
                v.append((f'not-stored-verbatim/{cname}/{form}/{nm}', 'stored blob differs'))
            if must is not False and raised is None and form.startswith('str') and nm == 'constructor' and st != text:
                v.append((f'not-stored-verbatim/{cname}/{form}/{nm}', f'JSON text of {len(text)} chars stored as a different text of {len(st)} chars'))
            if raised is None and nm == 'constructor' and len(st) > cls.MAX_SIZE:
                v.append((f'stored-over-limit/{cname}/{form}', f'stored blob has {len(st)} chars, limit {cls.MAX_SIZE}'))
            if raised is None and nm == 'constructor':
                # whatever was accepted can be decoded again
                try:
                    cls(st)
                except Exception as e:
                    v.append((f'accepted-not-reencodable/{cname}/{form}', f'{type(e).__name__}: {e}'))
        _reset_topo()
        return {'v': v, 'nt': case, 'out': f'blob:{must}'}
    if kind == 'cap':
        _, f, val = case
        ok = isinstance(val, int) and not isinstance(val, bool) and val >= 0
        entries = {'constructor': lambda: getattr(Capacities(**{f: val}), f),
                   '_set_fields': lambda: getattr(Capacities()._set_fields(**{f: val}), f),
                   'update': lambda: getattr(Capacities.update(Capacities(ram=1), **{f: val}), f),
                   'from_json': lambda: getattr(Capacities.from_json(json.dumps({f: val, 'ram': 1})), f),
                   'delegation-details': lambda: getattr(Delegations.from_json(
                       json_str=json.dumps({'d': {'pool_id': '_', 'capacities': {f: val, 'ram': 1}}}),
                       atype=DelegationType.CAPACITY).get_by_delegation_id('d').get_details(), f),
                   'element.update_capacities': lambda: _elem_cap(f, val)}
        for nm, fn in entries.items():
            try:
                st = fn()
                raised = None
            except BaseException as e:
                raised, st = type(e).__name__, None
            if not ok and raised is None:
                v.append((f'accepts-outside/capacity/{nm}', f'{nm}: {f}={val!r} accepted (stored {st!r})'))
            if ok and raised is not None:
                v.append((f'rejects-inside/capacity/{nm}', f'{nm}: {f}={val!r} raised {raised}'))
            if ok and raised is None and st != val:
                v.append((f'not-stored-verbatim/capacity/{nm}', f'{nm}: {f}={val!r} stored as {st!r}'))
        _reset_topo()
        return {'v': v, 'nt': case, 'out': f'cap:{ok}'}
    raise AssertionError(case)


def _reset_topo():
    global _TOPO
    _TOPO = None


def _elem_tags(s, edited=False):
    t = topo()
    if edited:
        tg = Tags('good')
        tg.tags.append(s)
        t.nodes['n1'].tags = tg
    else:
        t.nodes['n1'].tags = Tags('good', s)
    try:
        return t.nodes['n1'].tags.tags
    except Exception as e:
        # the assignment was ACCEPTED and what it stored cannot be read any more
        _reset_topo()
        return ['good', s, f'<stored, then unreadable: {type(e).__name__}>']


def _sliver_tags_edited(s):
    tg = Tags('good')
    tg.tags.append(s)
    x = NodeSliver()
    x.set_tags(tg)
    return x.get_tags().tags


def _decode_name(kind, s, how):
    """a valid sliver of this kind goes to its dictionary / JSON form, the name in that form is replaced, the form is decoded"""
    import copy
    from fim.graph.abc_property_graph import ABCPropertyGraph as G
    from fim.slivers.json import JSONSliver
    from fim.slivers.attached_components import AttachedComponentsInfo, ComponentType
    from fim.slivers.network_node import NodeType
    from fim.slivers.network_service import ServiceType
    from fim.slivers.interface_info import InterfaceType
    from fim.slivers.network_link import LinkType
    cls = NAME_RULES[kind][0]
    x = cls()
    x.set_name('valid-name')
    x.set_type({'node': NodeType.VM, 'component': ComponentType.GPU, 'service': ServiceType.L2Bridge,
                'interface': InterfaceType.TrunkPort, 'link': LinkType.Patch}[kind])
    x.node_id = 'id-1'
    if how == 'nested':
        n = NodeSliver()
        n.set_name('host-node')
        n.set_type(NodeType.VM)
        n.node_id = 'id-0'
        aci = AttachedComponentsInfo()
        aci.add_device(x)
        n.attached_components_info = aci
        text = JSONSliver.sliver_to_json(n).replace('valid-name', json.dumps(s)[1:-1])
        back = JSONSliver.node_sliver_from_json(text)
        return list(back.attached_components_info.devices.values())[0].get_name()
    if how == 'json':
        text = JSONSliver.sliver_to_json(x).replace('valid-name', json.dumps(s)[1:-1])
        back = JSONSliver.node_sliver_from_json(text) if kind == 'node' else JSONSliver.network_service_sliver_from_json(text)
        return back.get_name()
    d = json.loads(json.dumps(G.sliver_to_dict(copy.deepcopy(x))).replace('valid-name', json.dumps(s)[1:-1]))
    rebuild = {'node': G.build_deep_node_sliver_from_dict, 'component': G.build_deep_component_sliver_from_dict,
               'service': G.build_deep_ns_sliver_from_dict, 'interface': G.build_deep_interface_sliver_from_dict,
               'link': G.build_deep_link_sliver_from_dict}[kind]
    return rebuild(props=d).get_name()


def _sl(cls, how, s):
    x = cls()
    if how == 'set_name':
        x.set_name(s)
    elif how == 'props':
        x.set_properties(name=s)
    else:
        x.set_property('name', s)
    return x.get_name()


def _create(kind, s):
    t = topo()
    if kind == 'node':
        t.add_node(name=s, site='S1')
        return [d['Name'] for _, d in world.shared_store().graphs.nodes(data=True) if d['Class'] == 'NetworkNode' and d['Name'] != 'n1'][0]
    if kind == 'component':
        t.nodes['n1'].add_component(name=s, model_type=ComponentModelType.GPU_RTX6000)
        return [d['Name'] for _, d in world.shared_store().graphs.nodes(data=True) if d['Class'] == 'Component' and d['Name'] != 'c1'][0]
    if kind == 'service':
        t.add_network_service(name=s, nstype=ServiceType.L2Bridge, interfaces=[])
        return [d['Name'] for _, d in world.shared_store().graphs.nodes(data=True) if d['Class'] == 'NetworkService' and d['Type'] == 'L2Bridge' and d['Name'] != 's1'][0]
    if kind == 'interface':
        from fim.slivers.interface_info import InterfaceType
        f = t.add_facility(name='fac', site='S1')
        ns = list(f.network_services.values())[0]
        ns.add_interface(name=s, itype=InterfaceType.FacilityPort)
        return [d['Name'] for _, d in world.shared_store().graphs.nodes(data=True) if d['Class'] == 'ConnectionPoint' and d['Type'] == 'FacilityPort' and d['Name'] != 'fac-int'][0]


class HandleKeptRejectedName(Exception):
    pass


def _create_nic(s):
    t = topo()
    t.nodes['n1'].add_component(name=s, model_type=ComponentModelType.SharedNIC_ConnectX_6)
    return [d['Name'] for _, d in world.shared_store().graphs.nodes(data=True) if d['Class'] == 'Component' and d['Name'] != 'c1'][0]


def _rename(kind, s, assign=False):
    t = topo()
    if kind == 'node':
        e = t.nodes['n1']
    elif kind == 'component':
        e = t.nodes['n1'].components['c1']
    elif kind == 'service':
        e = t.network_services['s1']
    else:
        e = t.nodes['n1'].interface_list[0]
    nid = e.node_id
    old = e.name
    try:
        if assign:
            e.name = s
        else:
            e.rename(s)
    except Exception:
        if e.name != old:
            raise HandleKeptRejectedName(f'the call raised, yet the handle now reports name {e.name!r} (model: {old!r})')
        raise
    return [d['Name'] for _, d in world.shared_store().graphs.nodes(data=True) if d['NodeID'] == nid][0]


def _boot_sliver(s):
    x = NodeSliver()
    x.set_boot_script(s)
    return x.get_boot_script()


def _boot_elem(s):
    t = topo()
    t.nodes['n1'].boot_script = s
    return t.nodes['n1'].boot_script


def _boot_create(s):
    t = topo()
    t.add_node(name='n2', site='S1', boot_script=s)
    return t.nodes['n2'].boot_script


def _elem_blob(attr, arg):
    t = topo()
    setattr(t.nodes['n1'], attr, arg)
    return json.dumps(getattr(t.nodes['n1'], attr))


def _elem_cap(f, val):
    t = topo()
    t.nodes['n1'].update_capacities(**{f: val})
    c = t.nodes['n1'].capacities
    return getattr(c, f) if c is not None else 0      # nothing set reads back as absent; 0 is the unset value


REPLAY = {'labels': eval_label, 'misc': eval_misc}


def run(report):
    cases = label_candidates(report.tier)
    g = explore_cases(report, 'labels', eval_label, cases, chunk=200,
                      rule='(field, candidate string) x 15 entry points (constructor, _set_fields, update, 7 list shapes incl. the candidate between a lexicographically smaller and larger valid value, '
                           'from_json scalar and list, delegation details, element.update_labels); candidates = all strings over '
                           'the field alphabet up to the length bound (short formats) + complete edit-distance-1 neighbourhoods of '
                           'seed members and boundary numbers; non-trivial = every case (each is decided by the recogniser)',
                      space='see SHORT and SEEDS in checks/c16.py')
    outs = g['outcomes']
    for f in RECOGNISERS:
        report.require(outs.get(f'{f}:True', 0) > 0 and outs.get(f'{f}:False', 0) > 0, f'{f}: members and non-members')
    explore_cases(report, 'misc', eval_misc, misc_cases(report.tier), chunk=8,
                  rule='tags, element names per sliver class (sliver setters, creation, rename, assignment), boot script and JSON '
                       'blob size limits, capacity values, each through every entry point')
    report.assumptions += ['the documented language of a label field is its VALIDATORS pattern under whole-string matching and its '
                           'LAMBDA_VALIDATORS range; candidate alphabets are ASCII plus a few non-ASCII letters',
                           'numa has no pattern: only canonical decimals are decided, other int()-parseable spellings are unspecified',
                           'blob size limits: limit-1 must be accepted, limit+1 rejected, the limit itself may go either way but the same way on '
                           'every path; boot script: the pinned rule "shorter than 1024 characters" (1023 accepted, 1024 rejected)']
