"""C18 - instance sizing is sufficient and minimal; generated components match the catalogue.  Engine E2 (fully exhaustive)."""
import itertools
import json
import os

import fim.slivers.instance_catalog as ic_mod
import fim.slivers.component_catalog as cc_mod
from fim.slivers.instance_catalog import InstanceCatalog
from fim.slivers.component_catalog import ComponentCatalog
from fim.slivers.attached_components import ComponentType
from fim.slivers.capacities_labels import Capacities, Labels
from fim.slivers.interface_info import InterfaceType
from fim.slivers.network_service import ServiceType, NSLayer
import fim.user  # noqa: F401  populates ComponentModelType

from fimmc.engine import explore_cases

LEVEL = 'exploration'
DATA = os.path.join(os.path.dirname(ic_mod.__file__), 'data')
SIZES = json.load(open(os.path.join(DATA, 'instance_sizes.json')))
CATALOG = json.load(open(os.path.join(DATA, 'component_catalog.json')))
ORDER = list(SIZES.keys())
DIMS = ('core', 'ram', 'disk')


def grid_values(dim):
    vals = {0}
    for v in SIZES.values():
        for d in (-1, 0, 1):
            if v[dim] + d >= 0:
                vals.add(v[dim] + d)
    return sorted(vals)


def eval_requests(case):
    """case = (core, [ram values], [disk values]) - one slab of the request grid"""
    core = case[0]
    cat = InstanceCatalog()
    v = []
    nt = 0
    outs = set()
    for ram in case[1]:
        for disk in case[2]:
            req = (core, ram, disk)
            try:
                name = cat.map_capacities_to_instance(cap=Capacities(core=core, ram=ram, disk=disk))
            except Exception as e:
                v.append((f'sizing/raises/{type(e).__name__}', f'request {req}: {e}'))
                continue
            if name not in SIZES:
                v.append(('sizing/unknown-name', f'request {req} -> {name!r}'))
                continue
            got = tuple(SIZES[name][d] for d in DIMS)
            fits = [n for n, s in SIZES.items() if all(s[d] >= r for d, r in zip(DIMS, req))]
            if fits:
                nt += 1
                if not all(g >= r for g, r in zip(got, req)):
                    v.append(('sizing/insufficient', f'request {req} -> {name} {got} does not satisfy it although {fits[0]} does'))
                    continue
                dom = [n for n in fits if n != name and all(SIZES[n][d] <= g for d, g in zip(DIMS, got))
                       and tuple(SIZES[n][d] for d in DIMS) != got]
                if dom:
                    v.append(('sizing/not-minimal', f'request {req} -> {name} {got} but {dom[0]} '
                                                    f'{tuple(SIZES[dom[0]][d] for d in DIMS)} also satisfies it and is smaller-or-equal in every dimension'))
                outs.add('fit')
            else:
                largest = [n for n, s in SIZES.items() if all(s[d] >= o[d] for o in SIZES.values() for d in DIMS)]
                if name not in largest:
                    v.append(('sizing/fallback-not-largest', f'request {req} fits nothing; got {name}, largest is {largest}'))
                outs.add('fallback')
    return {'v': v, 'nt': (core, nt) if nt else None, 'out': '+'.join(sorted(outs)), 'tags': outs}


def eval_catalogue_names(case):
    cat = InstanceCatalog()
    v = []
    listing = cat.list_instances()
    if list(listing.keys()) != ORDER:
        v.append(('catalogue/listing', 'list_instances() keys differ from the data file'))
    for name, spec in SIZES.items():
        caps = cat.get_instance_capacities(instance_type=name)
        if caps is None or any(getattr(caps, d) != spec[d] for d in DIMS):
            v.append(('catalogue/name-capacities', f'{name}: {caps} vs file {spec}'))
        want = f"fabric.c{spec['core']}.m{spec['ram']}.d{spec['disk']}"
        if name != want:
            v.append(('catalogue/name-encodes-capacities', f'{name} holds {spec}'))
        # an exact request for a catalogue entry maps to that entry
        got = cat.map_capacities_to_instance(cap=Capacities(**spec))
        if got != name:
            v.append(('sizing/exact-request', f'exact request {spec} -> {got}, expected {name}'))
    if cat.get_instance_capacities(instance_type='no.such.size') is not None:
        v.append(('catalogue/unknown-name', 'unknown size name returned capacities'))
    try:
        listing['x'] = 1
        v.append(('catalogue/listing-writable', 'list_instances() view accepted an assignment'))
    except Exception:
        pass
    # history: results belong to the caller - editing them does not change what the catalogue answers next
    first = ORDER[0]
    mine = cat.get_instance_capacities(instance_type=first)
    mine.core += 100
    mine.ram = 0
    for c_ in cat.list_instances().values():
        c_.disk = 0
    for who, c2 in (('the same catalogue object', cat), ('a new catalogue object', InstanceCatalog())):
        again = c2.get_instance_capacities(instance_type=first)
        if again is None or any(getattr(again, d) != SIZES[first][d] for d in DIMS):
            v.append(('catalogue/result-edit-changes-catalogue', f'after editing earlier results, {who} reads {first} as {again}, file says {SIZES[first]}'))
    got = InstanceCatalog().map_capacities_to_instance(cap=Capacities(**SIZES[first]))
    if got != first:
        v.append(('catalogue/result-edit-changes-sizing', f'after editing earlier results the exact request {SIZES[first]} maps to {got}'))
    ic_mod.InstanceCatalog._InstanceCatalog__catalog_instance = None      # this worker goes on with a freshly loaded catalogue
    return {'v': v, 'nt': ('names', len(SIZES)), 'out': 'names'}


# ------------------------------------------------------------------------------------------ environment faults while loading
FAULTS = ('open-fails', 'read-fails', 'short-read')


class _FaultyFile:
    def __init__(self, path, kind):
        self._f, self._kind = open(path), kind

    def read(self, *a):
        if self._kind == 'read-fails':
            raise OSError(5, 'Input/output error (injected)')
        data = self._f.read()
        return data[:len(data) // 2]

    def __enter__(self):
        return self

    def __exit__(self, *a):
        self._f.close()
        return False


def _digest(which):
    """everything the catalogue answers, as plain data; an exception is part of the answer"""
    out = []
    if which == 'instance':
        cat = InstanceCatalog()
        try:
            out.append(sorted((k, str(v)) for k, v in cat.list_instances().items()))
            out.append(cat.map_capacities_to_instance(cap=Capacities(core=2, ram=8, disk=10)))
        except Exception as e:
            out.append(f'raises {type(e).__name__}')
        return out
    cat = ComponentCatalog()
    for c in CATALOG:
        try:
            cs = cat.generate_component(name='c1', ctype=ComponentType[c['Type']], model=c['Model'])
            nsi = cs.network_service_info
            out.append((str(cs.get_type()), cs.get_model(), cs.get_details(),
                        sorted(i for ns in (nsi.network_services.values() if nsi else []) for i in ns.interface_info.interfaces)))
        except Exception as e:
            out.append(f'{c["Model"]}: raises {type(e).__name__}')
    for t in ComponentType:
        try:
            out.append(sorted(dict(cat.search_catalog(ctype=t)).items()))
        except Exception as e:
            out.append(f'search {t}: raises {type(e).__name__}')
    return out


def eval_fault(case):
    """the first load of a catalogue file meets one environment fault; the caller tries again once the fault is gone"""
    which, fault = case
    mod = ic_mod if which == 'instance' else cc_mod

    def reset():
        if which == 'instance':
            ic_mod.InstanceCatalog._InstanceCatalog__catalog_instance = None
        else:
            cc_mod.ComponentCatalog.catalog_instance = None
    v = []
    reset()
    want = _digest(which)
    reset()

    def faulty_open(path, *a, **kw):
        if fault == 'open-fails':
            raise OSError(24, 'Too many open files (injected)')
        return _FaultyFile(path, fault)
    mod.open = faulty_open
    try:
        first = _digest(which)
    finally:
        del mod.open
    if first == want:
        v.append((f'faults/{which}/fault-not-injected', f'{fault}: the load did not go through the intercepted open()'))
    after = _digest(which)
    if after != want:
        diff = [(a, b) for a, b in zip(want, after) if a != b][:2]
        v.append((f'faults/{which}/failed-load-sticks', f'after a load that met {fault}, a retry without the fault answers differently '
                                                        f'from a fault-free process: {str(diff)[:300]}'))
    reset()
    return {'v': v, 'nt': tuple(case), 'out': f'{which}:{fault}'}


# ------------------------------------------------------------------------------------------ components
LABEL_FORMS = ('none', 'scalar', 'list1', 'list4', 'list4rep', 'nobdf', 'shared', 'nones')   # shared: ONE scalar Labels object passed for every port


def raw_labels(form, k):
    """what the caller supplies, as plain values (the expectation is read from here, never from a Labels object)"""
    if form == 'scalar':
        return dict(bdf=f'0000:4{k}:00.0', mac=f'00:00:00:00:00:0{k}')
    if form == 'list1':
        return dict(bdf=[f'0000:4{k}:00.1'], mac=[f'00:00:00:00:01:0{k}'])
    if form == 'list4':
        return dict(bdf=[f'0000:4{k}:0{j}.0' for j in range(4)], mac=[f'00:00:00:00:0{j}:0{k}' for j in range(4)])
    if form == 'list4rep':
        # one entry per virtual function; functions may well share a VLAN or a NUMA node
        return dict(bdf=[f'0000:4{k}:0{j}.0' for j in range(4)], mac=[f'00:00:00:00:0{j}:0{k}' for j in range(4)],
                    vlan=['100', '100', '101', '100'], numa=['1', '1', '1', '1'])
    if form == 'nobdf':
        return dict(mac=f'00:00:00:00:02:0{k}', vlan_range='1-10')
    return None


def mk_labels(form, k):
    raw = raw_labels(form, k)
    return None if raw is None else Labels(**raw)


def component_cases():
    cases = []
    for idx, c in enumerate(CATALOG):
        namings = ['ctype+model', 'model_type'] + [f'alias:{i}' for i in range(len(c.get('AlsoModels') or []))]
        for naming in namings:
            for ids in (False, True):
                for lab in LABEL_FORMS:
                    if ids and lab == 'none':
                        continue          # ids without labels: argument-count error path, probed separately
                    for parent in (None, 'w1'):
                        cases.append((idx, naming, ids, lab, parent))
    cases.append(('enum',))
    cases.append(('wrong-counts',))
    return cases


def eval_component(case):
    v = []
    cat = ComponentCatalog()
    CMT = cc_mod.ComponentModelType
    CMAP = cc_mod.ComponentModelTypeMap
    if case[0] == 'enum':
        names = set()
        seen = []
        for m in CMT:
            e = CMAP.get(m)
            if e is None:
                v.append(('enum/member-unmapped', f'{m}'))
                continue
            seen.append((e['Type'], e['Model']))
            want = (e['Type'] + '_' + e['Model']).replace(' ', '_').replace('-', '_')
            if m.name != want:
                v.append(('enum/member-name', f'{m.name} maps to {e["Type"]}/{e["Model"]}'))
            names.add(m.name)
        cat_keys = [(c['Type'], c['Model']) for c in CATALOG]
        if sorted(seen) != sorted(cat_keys) or len(seen) != len(set(seen)):
            v.append(('enum/not-a-bijection', f'enum entries {sorted(seen)} vs catalogue {sorted(cat_keys)}'))
        for t in ComponentType:
            want = {c['Model']: c['Details'] for c in CATALOG if c['Type'] == str(t)}
            try:
                got = dict(cat.search_catalog(ctype=t))
            except Exception:
                got = {}
            if got != want:
                v.append(('catalogue/search', f'{t}: {got} vs {want}'))
        for c in CATALOG:
            if cat.component_details(model=c['Model']) != [x for x in CATALOG if x['Model'] == c['Model']][-1]['Details']:
                v.append(('catalogue/details', c['Model']))
        return {'v': v, 'nt': ('enum', len(seen)), 'out': 'enum'}
    if case[0] == 'wrong-counts':
        for c in CATALOG:
            n = len(c.get('Interfaces') or {})
            if not n:
                continue
            for nid, nlab in ((n - 1, n), (n + 1, n), (n, n - 1), (n, n + 1)):
                try:
                    cat.generate_component(name='c1', ctype=ComponentType[c['Type']], model=c['Model'],
                                           interface_node_ids=[f'i{k}' for k in range(nid)],
                                           interface_labels=[mk_labels('scalar', k) for k in range(nlab)])
                    v.append(('component/wrong-count-accepted', f'{c["Model"]}: {nid} ids and {nlab} labels for {n} interfaces accepted'))
                except Exception:
                    pass
        for kw in (dict(ctype=ComponentType.GPU), dict(model='RTX6000'), dict()):
            try:
                cat.generate_component(name='c1', **kw)
                v.append(('component/incomplete-naming-accepted', f'{kw}'))
            except Exception:
                pass
        try:
            cat.generate_component(name='c1', ctype=ComponentType.GPU, model='ConnectX-6')
            v.append(('component/type-model-mismatch-accepted', 'GPU/ConnectX-6'))
        except Exception:
            pass
        return {'v': v, 'nt': ('wrong-counts',), 'out': 'wrong-counts'}
    idx, naming, ids, lab, parent = case
    c = CATALOG[idx]
    ports = list((c.get('Interfaces') or {}).keys())
    kw = dict(name='c1', parent_name=parent)
    if naming == 'ctype+model':
        kw.update(ctype=ComponentType[c['Type']], model=c['Model'])
    elif naming == 'model_type':
        mt = [m for m in CMT if CMAP[m] is c or (CMAP[m]['Type'], CMAP[m]['Model']) == (c['Type'], c['Model'])]
        if len(mt) != 1:
            return {'v': [('enum/not-a-bijection', f'{c["Type"]}/{c["Model"]} has {len(mt)} enum members')], 'nt': None, 'out': 'enum'}
        kw.update(model_type=mt[0])
    else:
        kw.update(ctype=ComponentType[c['Type']], model=c['AlsoModels'][int(naming.split(':')[1])])
    labels = None
    if ports:
        if ids:
            kw.update(interface_node_ids=[f'if-{k}' for k in range(len(ports))], ns_node_id='ns-id')
        if lab != 'none':
            if lab == 'nones':
                labels = [None for _ in ports]        # the documented way to supply interface ids without labels
            elif lab == 'shared':
                one = mk_labels('scalar', 0)
                labels = [one for _ in ports]
            else:
                labels = [mk_labels(lab, k) for k in range(len(ports))]
            kw.update(interface_labels=labels)
    fp = f'{c["Type"]}/{c["Model"]}'

    def bad(clause, msg):
        v.append((f'component/{clause}', f'{fp} via {naming}, ids={ids}, labels={lab}, parent={parent}: {msg}'))
    try:
        cs = cat.generate_component(**kw)
    except Exception as e:
        bad(f'raises/{type(e).__name__}', str(e))
        return {'v': v, 'nt': tuple(case), 'out': 'raise'}
    if str(cs.get_type()) != c['Type']:
        bad('type', f'{cs.get_type()}')
    if cs.get_model() != c['Model']:
        bad('model', f'{cs.get_model()}')
    if cs.get_details() != c['Details']:
        bad('details', f'{cs.get_details()!r}')
    if cs.get_name() != 'c1':
        bad('name', cs.get_name())
    nsi = cs.network_service_info
    if not ports:
        if nsi is not None and nsi.network_services:
            bad('unexpected-interfaces', f'{list(nsi.network_services)}')
        return {'v': v, 'nt': tuple(case), 'out': 'no-ports'}
    if nsi is None or len(nsi.network_services) != 1:
        bad('service-count', f'{None if nsi is None else list(nsi.network_services)}')
        return {'v': v, 'nt': tuple(case), 'out': 'bad'}
    ns = list(nsi.network_services.values())[0]
    fpga = c['Type'] == 'FPGA'
    want_ns_name = (f'{parent}-' if parent else '') + 'c1' + ('-l2p4' if fpga else '-l2ovs')
    if ns.get_name() != want_ns_name:
        bad('service-name', f'{ns.get_name()} expected {want_ns_name}')
    if ns.get_type() != (ServiceType.P4 if fpga else ServiceType.OVS) or ns.get_layer() != NSLayer.L2:
        bad('service-type', f'{ns.get_type()} {ns.get_layer()}')
    if ids and ns.node_id != 'ns-id':
        bad('service-id', f'{ns.node_id}')
    ifs = ns.interface_info.interfaces if ns.interface_info is not None else {}
    if list(ifs.keys()) != [f'c1-{p}' for p in ports]:
        bad('interface-names', f'{list(ifs.keys())} expected {[f"c1-{p}" for p in ports]}')
        return {'v': v, 'nt': tuple(case), 'out': 'bad'}
    kind = {'SmartNIC': InterfaceType.DedicatedPort, 'FPGA': InterfaceType.DedicatedPort, 'SharedNIC': InterfaceType.SharedPort}[c['Type']]
    node_ids = []
    for k, p in enumerate(ports):
        i = ifs[f'c1-{p}']
        node_ids.append(i.node_id)
        if i.get_type() != kind:
            bad('interface-kind', f'{p}: {i.get_type()} expected {kind}')
        if ids and i.node_id != f'if-{k}':
            bad('interface-id-placement', f'{p}: {i.node_id} expected if-{k}')
        if not i.node_id:
            bad('interface-id-missing', p)
        want_units = 1
        if lab == 'list1':
            want_units = 1
        if lab in ('list4', 'list4rep'):
            want_units = 4
        caps = i.get_capacities()
        if caps is None or caps.unit != want_units:
            bad('unit-count', f'{p}: unit={None if caps is None else caps.unit} expected {want_units} for labels form {lab}')
        want_bw = 0 if c['Type'] == 'SharedNIC' else int(c['Interfaces'][p])
        if caps is not None and caps.bw != want_bw:
            bad('speed', f'{p}: bw={caps.bw} expected {want_bw}')
        L = i.get_labels()
        if L is None:
            bad('labels-missing', p)
            continue
        want_local = [p] * want_units if lab in ('list1', 'list4', 'list4rep') else p
        if L.local_name != want_local:
            bad('local-name', f'{p}: {L.local_name!r} expected {want_local!r}')
        if lab == 'nones':
            if any(getattr(L, f) is not None for f in ('bdf', 'mac')):
                bad('label-invented', f'{p}: {L}')
        elif labels is not None:
            src = mk_labels('scalar', 0) if lab == 'shared' else mk_labels(lab, k)
            # the caller's label objects are the caller's: generating a component does not write into them
            if labels[k].__dict__ != src.__dict__:
                bad('caller-labels-modified', f'{p}: the Labels object passed in is now {labels[k]} (was {src})')
            raw = raw_labels('scalar', 0) if lab == 'shared' else raw_labels(lab, k)
            for f in ('bdf', 'mac', 'vlan_range', 'vlan', 'numa'):
                if getattr(L, f) != raw.get(f):
                    bad('label-placement', f'{p}: {f}={getattr(L, f)!r} expected {raw.get(f)!r}')
        else:
            if any(getattr(L, f) is not None for f in ('bdf', 'mac')):
                bad('label-invented', f'{p}: {L}')
    if len(set(node_ids)) != len(node_ids):
        bad('interface-ids-not-distinct', f'{node_ids}')
    return {'v': v, 'nt': tuple(case), 'out': f'{c["Type"]}:{lab}'}


REPLAY = {'requests': eval_requests, 'names': eval_catalogue_names, 'components': eval_component, 'faults': eval_fault}


def run(report):
    cores, rams, disks = grid_values('core'), grid_values('ram'), grid_values('disk')
    # the grid is split into slabs so that workers share it; every (core, ram, disk) combination is evaluated once
    slabs = []
    for c in cores:
        for r4 in [rams[i:i + 7] for i in range(0, len(rams), 7)]:
            slabs.append((c, r4, disks))
    g = explore_cases(report, 'requests', eval_requests, slabs, chunk=2,
                      rule=f'the whole request grid {{catalogue value -1, value, +1}} U {{0}} per dimension: {len(cores)} core x {len(rams)} ram x '
                           f'{len(disks)} disk values = {len(cores) * len(rams) * len(disks)} requests (one case = one slab of the grid); brute-force '
                           f'Pareto oracle over the 869 catalogue entries; non-trivial = slab containing satisfiable requests',
                      space=f'{len(cores) * len(rams) * len(disks)} requests')
    g['requests'] = len(cores) * len(rams) * len(disks)
    report.require(g['tags'].get('fit', 0) > 0 and g['tags'].get('fallback', 0) > 0, 'satisfiable and unsatisfiable requests')
    explore_cases(report, 'names', eval_catalogue_names, [('all',)], chunk=1, workers=1,
                  rule='all 869 catalogue entries: name <-> capacities, exact request maps to itself')
    g['distinct_nontrivial'] += 0
    gc = explore_cases(report, 'components', eval_component, component_cases(), chunk=8,
                       rule='every catalogue component x naming form (type+model, combined enum, each alias) x ids (generated | supplied) x '
                            'labels (none | scalar bdf | list of 1 | list of 4 | without bdf) x parent name; plus enum bijection and '
                            'wrong-argument-count probes')
    report.require(any(k.endswith(':list4') for k in gc['outcomes']) and any(k.endswith(':scalar') for k in gc['outcomes']),
                   'scalar and list label forms on components with interfaces')
    explore_cases(report, 'faults', eval_fault, [(w, f) for w in ('component', 'instance') for f in FAULTS], chunk=1, workers=1,
                  rule='deviation bound 1 on the environment of the catalogue loaders: the load of each data file meets one fault at each '
                       'of its environment calls (open() fails | read() fails | read() returns half the file), then the same process '
                       'asks again without a fault; every answer (all components, searches, sizes) must equal the fault-free ones')
    report.assumptions.append('interface ids supplied without labels, and labels supplied without ids in a different count, are '
                              'argument-count error paths (must raise or are unspecified) and not part of the generated-tree oracle')
