"""C13 - partitioning an aggregate model yields sound per-delegation models.  Engine E2.

A generated substrate model is annotated with EVERY assignment vector of delegation choices over its delegable elements;
generate_adms() runs on the in-memory backend; every returned model is judged from raw snapshots.
"""
import itertools
import json

from fim.graph.resources.networkx_adm import NetworkXADMGraph

from fimmc import world
from fimmc.canon import props_canon
from fimmc.engine import explore_cases
from fimmc.substrate import build_site, annotate, entries_of, menu, LAB, CAP, PROP
from fimmc.topo import Raw, NN, COMP, NS, CP, LINK

LEVEL = 'exploration'
world.install_uuid_seam()
DELEG_PROPS = ('LabelDelegations', 'CapacityDelegations')
MENU_Q = ('none', 'L@d1', 'C@d1', 'LC@d1', 'LC@d2', 'L@d1,C@d2', 'LC@d1&d2', 'pooldef@d1', 'poolref@d1', 'poolrefonly@d1')
MENU_T = ('none', 'L@d1', 'LC@d1', 'LC@d2', 'L@d1,C@d2', 'LC@d1&d2')


def elements(ids, variant):
    w = ids['workers'][0]
    el = [w['node'], w['comp'], w['ports'][0], w['swports'][0]]
    if variant == 2:       # delegations written on the stitching elements themselves (uplink port, switch service)
        return [w['node'], w['swports'][0], ids['uplink'], ids['switch'][1]]
    if variant == 3:       # a second switch joined to the uplink by two parallel links
        return [w['node'], w['swports'][0], ids['sw2']['port'], ids['sw2']['node']]
    if variant >= 1:
        el += [ids['facility']['port'], ids['sw2']['port']]
    return el


def snapshot(gid):
    r = Raw(gid)
    nodes = {n: dict(d) for n, d in r.nodes.items()}
    edges = {frozenset((a, b)): dict(d) for a, b, d in r.edges}
    return r, nodes, edges


def eval_vector(case):
    variant, choice = case[0], tuple(case[1])
    v = []
    world.reset_all()
    t, ids = build_site('A', workers=2 if variant == 1 else 1, facility=variant == 1, second_switch=variant in (1, 3),
                        parallel=variant == 3)
    arm = t.as_arm()
    els = elements(ids, variant)
    ctx = f'[variant {variant} assignment {dict(zip([e.split("-", 1)[1] for e in els], choice))}]'
    for e, c in zip(els, choice):
        annotate(arm, e, c, pool_tag=e, ref_tag=els[0])
    gid = arm.graph_id
    raw0, nodes0, edges0 = snapshot(gid)
    want_ids = set()
    per_node = {}
    for n, d in nodes0.items():
        per_node[n] = {LAB: entries_of(d, LAB), CAP: entries_of(d, CAP)}
        for t2 in (LAB, CAP):
            want_ids |= set(per_node[n][t2])
    try:
        adms = arm.generate_adms()
    except Exception as e:
        import traceback
        kinds = '+'.join(sorted(set(choice)))
        single = any(c in ('L@d1', 'C@d1', 'pooldef@d1') for c in choice)
        v.append((f'generate_adms-raises/{type(e).__name__}' + ('/node-with-one-delegation-kind' if single else ''),
                  f'{type(e).__name__}: {e} {ctx} {traceback.format_exc(limit=3)}'))
        return {'v': v, 'nt': tuple(case), 'out': 'raise'}
    if set(adms) != want_ids:
        v.append(('partition-ids', f'returned models for {sorted(adms)}, the annotations name {sorted(want_ids)} {ctx}'))
    stitch = {n for n, d in nodes0.items() if d.get('StitchNode') == 'true'}

    def signature(models):
        sig = {}
        for did_, adm_ in models.items():
            _, nn, ee = snapshot(adm_.graph_id)
            sig[did_] = ({n: {k: x for k, x in d.items() if k != 'GraphID'} for n, d in nn.items()}, ee)
        return sig
    first_sig = signature(adms)
    for did, adm in adms.items():
        r, nodes, edges = snapshot(adm.graph_id)
        c2 = f'{ctx} [partition {did}]'
        # sub-model
        extra = set(nodes) - set(nodes0)
        if extra:
            v.append(('sub-model/new-nodes', f'{sorted(extra)} {c2}'))
        for n, d in nodes.items():
            if n not in nodes0:
                continue
            a = {k: x for k, x in d.items() if k not in DELEG_PROPS + ('GraphID',)}
            b = {k: x for k, x in nodes0[n].items() if k not in DELEG_PROPS + ('GraphID',)}
            if a != b:
                diff = {k for k in set(a) | set(b) if a.get(k) != b.get(k)}
                v.append(('sub-model/property-changed', f'{n}: {sorted(diff)} {c2}'))
            if d.get('GraphID') != adm.graph_id:
                v.append(('sub-model/graph-id', f'{n} carries {d.get("GraphID")} {c2}'))
        for e in edges:
            if e not in edges0 or edges[e] != edges0[e]:
                v.append(('sub-model/new-or-changed-edge', f'{sorted(e)} {c2}'))
        for e in edges0:
            if set(e) <= set(nodes) and e not in edges:
                v.append(('sub-model/edge-between-kept-nodes-lost', f'{sorted(e)} {c2}'))
        # delegated resources present with exactly their own entries; nothing of another id anywhere
        for n in nodes0:
            for t2 in (LAB, CAP):
                mine = per_node[n][t2].get(did)
                if mine is not None and n not in nodes:
                    v.append(('delegated-node-missing', f'{n} is delegated to {did} ({PROP[t2]}) but absent {c2}'))
        for n, d in nodes.items():
            for t2 in (LAB, CAP):
                got = entries_of(d, t2)
                want = {did: per_node[n][t2][did]} if did in per_node.get(n, {}).get(t2, {}) else {}
                foreign = set(got) - {did}
                if foreign:
                    v.append(('foreign-delegation-entry', f'{n}.{PROP[t2]} carries entries of {sorted(foreign)} {c2}'))
                elif got != want:
                    v.append(('own-entry-differs', f'{n}.{PROP[t2]} = {got} expected {want} {c2}'))
        # kept interfaces keep link, peer, owning service and its owner
        for n in nodes:
            if raw0.cls(n) != CP:
                continue
            need = set()
            for l in raw0.nb(n, 'connects', LINK):
                need.add(l)
                need |= set(raw0.nb(l, 'connects', CP))
            for s in raw0.nb(n, 'connects', NS):
                need.add(s)
                need |= set(raw0.nb(s, 'has', NN)) | set(raw0.nb(s, 'has', COMP))
            miss = need - set(nodes)
            if miss:
                kinds = '+'.join(sorted({raw0.cls(x) for x in miss}))
                v.append((f'interface-context-missing/{kinds}', f'kept interface {n} lost {sorted(miss)} {c2}'))
        if stitch - set(nodes):
            v.append(('stitch-node-missing', f'{sorted(stitch - set(nodes))} {c2}'))
        # re-keying changes only the key
        before = {n: dict(d) for n, d in nodes.items()}
        try:
            NetworkXADMGraph(graph_id=adm.graph_id, importer=adm.importer).rewrite_delegations(real_adm_id='REAL-ID')
            _, after, edges_after = snapshot(adm.graph_id)
            if edges_after != edges or set(after) != set(before):
                v.append(('rekey/structure-changed', c2))
            for n in before:
                for k in set(before[n]) | set(after[n]):
                    if k in DELEG_PROPS:
                        b = json.loads(before[n][k]) if before[n].get(k) else {}
                        a = json.loads(after[n][k]) if after[n].get(k) else {}
                        if b and (list(a.keys()) != ['REAL-ID'] or list(a.values()) != list(b.values())):
                            v.append(('rekey/entry-changed', f'{n}.{k}: {b} -> {a} {c2}'))
                    elif before[n].get(k) != after[n].get(k):
                        v.append(('rekey/other-property-changed', f'{n}.{k} {c2}'))
        except Exception as e:
            v.append((f'rekey/raises/{type(e).__name__}', f'{e} {c2}'))
    # history: partitioning the same (untouched) model again, after the partitions were re-keyed, gives the same partitions
    try:
        again = arm.generate_adms()
        if signature(again) != first_sig:
            sig2 = signature(again)
            what = sorted(set(sig2) ^ set(first_sig)) or sorted(d for d in first_sig if sig2.get(d) != first_sig[d])
            v.append(('repeat/partitions-differ', f'a second generate_adms() on the unchanged model differs from the first for {what} {ctx}'))
    except Exception as e:
        v.append((f'repeat/raises/{type(e).__name__}', f'{e} {ctx}'))
    # the aggregate model is left untouched
    _, nodes1, edges1 = snapshot(gid)
    if nodes1 != nodes0 or edges1 != edges0:
        v.append(('aggregate-model-modified', ctx))
    return {'v': v, 'nt': tuple(case), 'out': f'{len(adms)}-partitions'}


def eval_reload(case):
    """history on ONE topology object: it holds model A and is partitioned; then model B is loaded into it (from text or from a
    file) and it is partitioned again - the partitions are partitions of what it holds NOW"""
    how, choice_a, choice_b = case
    v = []
    world.reset_all()
    ta, ida = build_site('A', workers=1)
    arm_a = ta.as_arm()
    for e, c in zip(elements(ida, 0), ('LC@d1', 'none', choice_a, 'none')):
        annotate(arm_a, e, c, pool_tag=e)
    tb, idb = build_site('B', workers=2, facility=True, second_switch=True)
    arm_b = tb.as_arm()
    for e, c in zip(elements(idb, 1), ('LC@d2', 'none', choice_b, 'none', 'LC@d2', 'none')):
        annotate(arm_b, e, c, pool_tag=e)
    text_b = tb.serialize()
    ids_a = set(Raw(ta.graph_model.graph_id).nodes)
    ids_b = set(Raw(tb.graph_model.graph_id).nodes)
    ctx = f'[load via {how}; A: port {choice_a}; B: port {choice_b}]'
    try:
        first = ta.as_arm().generate_adms()
        if how == 'string':
            ta.load(graph_string=text_b)
        else:
            import tempfile
            with tempfile.NamedTemporaryFile('w', suffix='.graphml', encoding='utf-8') as f:
                f.write(text_b)
                f.flush()
                ta.load(file_name=f.name)
        second = ta.as_arm().generate_adms()
    except Exception as e:
        v.append((f'reload/raises/{type(e).__name__}', f'{e} {ctx}'))
        return {'v': v, 'nt': tuple(case), 'out': 'raise'}
    want_ids = set()
    for n, d in Raw(ta.graph_model.graph_id).nodes.items():
        for t2 in (LAB, CAP):
            want_ids |= set(entries_of(d, t2))
    if set(second) != want_ids:
        v.append(('reload/partition-ids', f'after loading B the partitions are for {sorted(second)}, B names {sorted(want_ids)} {ctx}'))
    for did, adm in second.items():
        got = set(Raw(adm.graph_id).nodes)
        if got - ids_b:
            v.append(('reload/partition-of-the-previous-model', f'partition {did} holds {sorted(got - ids_b)[:4]}..., which are not elements of the loaded model {ctx}'))
    return {'v': v, 'nt': tuple(case), 'out': f'{len(second)}-partitions-after-reload'}


def eval_kept_view(case):
    """history on ONE aggregate-model view: `arm = t.as_arm()` is partitioned, the model then GROWS through the topology API
    (a new worker with a NIC, cabled to a new port of the switch; optionally one of its interfaces delegated), and the same
    view is partitioned again. The view is a live recast of the model: its partitions equal those a fresh view gives."""
    from fim.user.topology import SubstrateTopology   # noqa  (build_site made one)
    from fim.slivers.capacities_labels import Labels, Capacities
    from fim.user.component import ComponentModelType
    from fim.user.node import NodeType
    from fim.user.interface import InterfaceType
    from fim.user.link import LinkType
    choice_old, choice_new, looks = case
    v = []
    world.reset_all()
    t, ids = build_site('A', workers=1)
    arm = t.as_arm()
    w0 = ids['workers'][0]
    annotate(arm, w0['ports'][0], choice_old, pool_tag='o')
    ctx = f'[first port {choice_old}; new port {choice_new}; partitioned {looks}x before the model grew]'
    try:
        for _ in range(looks):
            arm.generate_adms()
        wn = t.add_node(name='A-w9', node_id='A-w9', site='A', ntype=NodeType.Server, capacities=Capacities(core=8, ram=16, disk=10))
        nic = wn.add_component(name='nic', node_id='A-w9-nic', model_type=ComponentModelType.SmartNIC_ConnectX_6,
                               network_service_node_id='A-w9-nic-sf', interface_node_ids=['A-w9-nic-p1', 'A-w9-nic-p2'],
                               interface_labels=[Labels(bdf='0000:42:00.0', mac='00:00:00:00:09:01'),
                                                 Labels(bdf='0000:42:00.1', mac='00:00:00:00:09:02')],
                               capacities=Capacities(unit=1))
        sf = t.nodes['A-sw'].network_services['A-sw-ns']
        sp = sf.add_interface(name='A-sw-p9', node_id='A-sw-p9', itype=InterfaceType.TrunkPort, labels=Labels(local_name='p9'),
                              capacities=Capacities(bw=100))
        t.add_link(name='A-l9', node_id='A-l9', ltype=LinkType.Patch,
                   interfaces=[sorted(nic.interface_list, key=lambda x: x.name)[0], sp])
        annotate(arm, 'A-w9-nic-p1', choice_new, pool_tag='n')
        kept = arm.generate_adms()
        fresh = t.as_arm().generate_adms()
    except Exception as e:
        import traceback
        v.append((f'kept-view/raises/{type(e).__name__}', f'{e} {ctx} {traceback.format_exc(limit=2)}'))
        return {'v': v, 'nt': tuple(case), 'out': 'raise'}

    def sig(models):
        out = {}
        for did, adm in models.items():
            _, nn, ee = snapshot(adm.graph_id)
            out[did] = (sorted(nn), sorted(map(repr, ee)))
        return out
    sk, sfr = sig(kept), sig(fresh)
    if sk != sfr:
        for did in sorted(set(sk) | set(sfr)):
            a, b = sk.get(did), sfr.get(did)
            if a != b:
                missing = sorted(set(b[0]) - set(a[0])) if a and b else None
                v.append(('kept-view/partition-differs-from-fresh-view', f'partition {did}: the kept view lacks {missing} {ctx}'))
    # the grown element and what hangs on it is in the partition that names it
    for did, adm in kept.items():
        _, nn, _ = snapshot(adm.graph_id)
        if 'A-w9-nic-p1' in nn and not {'A-l9', 'A-sw-p9', 'A-w9-nic-sf', 'A-w9-nic'} <= set(nn):
            v.append(('kept-view/interface-without-its-surroundings',
                      f'partition {did} keeps A-w9-nic-p1 but lacks {sorted({"A-l9", "A-sw-p9", "A-w9-nic-sf", "A-w9-nic"} - set(nn))} {ctx}'))
    return {'v': v, 'nt': tuple(case), 'out': f'{len(kept)}-partitions'}


REPLAY = {'vectors': eval_vector, 'reload': eval_reload, 'kept-view': eval_kept_view}


def run(report):
    if report.tier == 'quick':
        # (the pooled choices on the worker and its component, the plain ones on the two ports: 10 x 10 x 6 x 6)
        cases = [(0, c) for c in itertools.product(MENU_Q, MENU_Q, MENU_T, MENU_T)]
        cases += [(1, c) for c in itertools.product(('none', 'LC@d1', 'LC@d2'), repeat=6)]
        cases += [(2, c) for c in itertools.product(MENU_T, repeat=4)]
        cases += [(3, c) for c in itertools.product(('none', 'LC@d1', 'LC@d2', 'L@d1,C@d2'), repeat=4)]
    else:
        cases = [(0, c) for c in itertools.product(tuple(menu('x')), repeat=4)]
        cases += [(3, c) for c in itertools.product(MENU_T, repeat=4)]
        cases += [(2, c) for c in itertools.product(tuple(menu('x')), repeat=4)]
        cases += [(1, c) for c in itertools.product(MENU_T, repeat=6)]
    g = explore_cases(report, 'vectors', eval_vector, cases, chunk=16,
                      rule='substrate model (worker with NIC, stitch switch + service + ports, patch links; variant 1 adds a second '
                           'worker, a facility and an inter-switch link; variant 2 puts delegations on the stitching port and service; variant 3 joins a second switch to the uplink by two parallel links) x EVERY vector of per-element delegation choices over the '
                           'delegable elements (none, label-only, capacity-only, both, other id, mixed ids, two ids on one node, pool '
                           'definition, pool reference); each returned model judged on 7 clauses from raw snapshots')
    explore_cases(report, 'reload', eval_reload,
                  [(how, a, b) for how in ('string', 'file') for a in ('none', 'LC@d1', 'L@d1') for b in ('none', 'LC@d2', 'LC@d1')], chunk=2,
                  rule='one topology object: partition model A, load model B into it (text | file), partition again')
    explore_cases(report, 'kept-view', eval_kept_view,
                  [(a, b, k) for a in ('none', 'LC@d1', 'L@d1') for b in ('LC@d1', 'LC@d2', 'L@d1', 'none') for k in (1, 2)], chunk=2,
                  rule='one aggregate-model view: partitioned once or twice, then the model grows through the topology API (worker, '
                       'NIC, switch port, link) and a new interface is delegated; partitioning through the kept view equals '
                       'partitioning through a fresh view, and the new interface comes with its link, peer, service and owner')
    report.require(g['outcomes'].get('2-partitions', 0) > 0 and g['outcomes'].get('1-partitions', 0) > 0, 'one and two partitions')
    report.assumptions.append('extra kept nodes are allowed by the statement and not flagged; in-memory backend as the property states')
