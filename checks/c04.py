"""C04 - graphs sharing the in-memory store are isolated; clones are independent.

Engine E1: explicit-state BFS over histories of graph operations on three graph ids that all use the same NodeIDs,
on each store flavour. Oracle = frame condition on every transition + store integrity + look-ahead allocation probes.
"""
import json

import networkx as nx

from fim.graph.networkx_property_graph import NetworkXPropertyGraph
from fim.graph.networkx_property_graph_disjoint import NetworkXPropertyGraphDisjoint
from fim.graph.abc_property_graph import GraphFormat

from fimmc import world
from fimmc.canon import canon_nx, split_by_graph_id, cross_graph_edges
from fimmc.engine import Model, bfs

LEVEL = 'model_checking'
GIDS = ('G1', 'G2', 'G3')


def _payload_graph(keys, ids, gid=None, extra=None):
    g = nx.Graph()
    for k, i in zip(keys, ids):
        d = dict(NodeID=i, Class='NetworkNode', Name='n' + i, Type='Server')
        if gid:
            d['GraphID'] = gid
        if extra:
            d.update(extra)
        g.add_node(k, **d)
    if len(keys) >= 2:
        g.add_edge(keys[0], keys[1], Class='has', W='1')
    return g


def _graphml(g):
    return '\n'.join(nx.generate_graphml(g))


# P1: GraphML, node keys '1','2' collide with internal integer ids; P2: JSON node-link, keys are the NodeIDs themselves, 3 nodes
PAYLOADS = {
    'P1': _graphml(_payload_graph(['1', '2'], ['a', 'b'])),
    'P2': json.dumps(nx.readwrite.node_link_data(_payload_graph(['a', 'b', 'c'], ['a', 'b', 'c'], extra={'Q': 'p2'}))),
}
# (more nodes than P1/P2: a direct re-import over an id whose allocator is older must move the allocator past them)
DIRECT = {g: _graphml(_payload_graph(['1', '2', '3', '4'], ['a', 'b', 'c', 'd'], gid=g, extra={'D': 'direct'})) for g in GIDS}


def _mixed_payload(gid, other):
    """a document for the direct importers whose first two nodes name `gid` and whose last two name `other` as their graph"""
    g = _payload_graph(['1', '2', '3', '4'], ['m1', 'm2', 'm3', 'm4'], gid=gid, extra={'D': 'mixed'})
    for k in ('3', '4'):
        g.nodes[k]['GraphID'] = other
    return _graphml(g)


def _via_file(text, fn):
    """every file-based import of a process goes through ONE path (a caller's working file): a loader that remembers
    something about a path it has seen meets another document there"""
    import os
    import tempfile
    d = os.path.join(tempfile.gettempdir(), f'c04_{os.getpid()}')
    os.makedirs(d, exist_ok=True)
    path = os.path.join(d, 'model.graphml')
    try:
        with open(path, 'w', encoding='utf-8') as f:
            f.write(text)
        return fn(path)
    finally:
        os.unlink(path)
        try:
            os.rmdir(d)
        except OSError:
            pass


def _bad_payload(gid):
    """what an export of graph `gid` looks like (its nodes carry GraphID=gid) with the NodeID of a non-first node lost"""
    g = _payload_graph(['1', '2', '3'], ['a', 'b', 'c'], gid=gid, extra={'B': 'bad'})
    del g.nodes['2']['NodeID']
    return _graphml(g)


BAD = {g: _bad_payload(g) for g in GIDS}


def _payload_canon(text, is_json):
    import tempfile
    if is_json:
        g = nx.readwrite.node_link_graph(json.loads(text))
    else:
        with tempfile.NamedTemporaryFile('w', suffix='.graphml') as f:
            f.write(text)
            f.flush()
            g = nx.read_graphml(f.name)
    return canon_nx(g, drop_graph_id=True)


def _classless_payload():
    g = _payload_graph(['1', '2'], ['u', 'w'], extra={'K': 'p3'})
    del g.nodes['2']['Class']               # importable (only NodeID is required) but not valid: a node and the edge lack Class
    del g.edges['1', '2']['Class']
    return _graphml(g)


PAYLOADS['P3'] = _classless_payload()
PAYLOAD_CANON = {'P1': _payload_canon(PAYLOADS['P1'], False), 'P2': _payload_canon(PAYLOADS['P2'], True),
                 'P3': _payload_canon(PAYLOADS['P3'], False)}
DIRECT_CANON = _payload_canon(DIRECT['G1'], False)


class StoreModel(Model):
    def __init__(self, flavour):
        self.flavour = flavour
        self.name = f'c04-{flavour}'

    # ------------------------------------------------------------ plumbing
    def imp(self):
        return world.shared_importer() if self.flavour == 'shared' else world.disjoint_importer()

    def graph(self, gid):
        cls = NetworkXPropertyGraph if self.flavour == 'shared' else NetworkXPropertyGraphDisjoint
        return cls(graph_id=gid, importer=self.imp())

    def roots(self):
        return ['empty', 'rich']

    def build_root(self, root):
        world.reset_all()
        self._root, self._hist = root, []
        if root == 'rich':
            # interleaved internal ids: G1 gets a node after G2 was imported
            self.apply(('import', 'G1', 'P1'))
            self.apply(('import', 'G2', 'P2'))
            self.apply(('add_node', 'G1', 'c'))
            self.apply(('add_link', 'G1', 'a', 'c'))
        self._hist = []

    # A state IS its history: restoring replays the calls on a freshly reset store. Copying the store's containers instead
    # would silently repair anything that depends on object identity inside the store (two graph ids resolving to one
    # graph object, a default factory handing out a shared object) - the explorer would then visit states the library
    # cannot be in. Copy-snapshots are used only for the one-step look-ahead probes of the invariant.
    def snapshot(self):
        return ('H', self._root, tuple(self._hist))

    def restore(self, snap):
        if snap[0] == 'H':
            hist = list(snap[2])
            self.build_root(snap[1])
            for ev in hist:
                self.apply(ev)
        else:
            if self.flavour == 'shared':
                world.restore_shared(snap[1])
            else:
                world.restore_disjoint(snap[1])
            self._hist = list(snap[2])

    def fast_snapshot(self):
        return ('C', world.snapshot_shared() if self.flavour == 'shared' else world.snapshot_disjoint(), tuple(self._hist))

    # ------------------------------------------------------------ observation
    def raw_graphs(self):
        """{graph id: nx graph view} straight from the store"""
        if self.flavour == 'shared':
            return split_by_graph_id(world.shared_store().graphs)
        return {k: g for k, g in world.disjoint_store().graphs.items() if len(g.nodes) > 0}

    def observe(self):
        return {gid: canon_nx(g) for gid, g in self.raw_graphs().items()}

    def canon(self):
        obs = self.observe()
        layout = ()
        if self.flavour == 'shared':
            st = world.shared_store()
            seq = []
            for n in sorted(st.graphs.nodes):
                gid = st.graphs.nodes[n].get('GraphID')
                if not seq or seq[-1] != gid:
                    seq.append(gid)
            layout = (tuple(seq), st.start_id > max(st.graphs.nodes, default=0))
        else:
            st = world.disjoint_store()
            # empty placeholder entries are part of the state: the per-graph store treats them as 'present'
            layout = tuple(sorted((k, len(g.nodes) == 0, dict.get(st.graph_node_ids, k, 1) > max(g.nodes, default=0))
                                  for k, g in st.graphs.items()))
        return (tuple(sorted(obs.items(), key=repr)), layout)

    # ------------------------------------------------------------ alphabet
    def events(self):
        ev = []
        for g in GIDS:
            ev.append(('import', g, 'P1'))
            ev.append(('import', g, 'P2'))
            ev.append(('import_direct', g))
            ev.append(('import_direct_file', g))         # the file-based sibling: same document, same outcome
            other = GIDS[(GIDS.index(g) + 1) % len(GIDS)]
            for variant in ('string', 'file'):
                # a document whose nodes name two graphs is not a graph: both direct importers refuse it, nothing changes
                ev.append(('import_direct_mixed', g, other, variant))
            if g == 'G3':
                ev.append(('import', g, 'P3'))       # a graph that is importable but does not validate (Class missing)
            # an import that must fail (a node without NodeID) of a document whose nodes name ANOTHER graph as theirs
            ev.append(('import_bad', g, GIDS[(GIDS.index(g) + 1) % len(GIDS)]))
            for i in ('a', 'c'):
                ev.append(('add_node', g, i))
            for i in ('a', 'b'):
                ev.append(('delete_node', g, i))
            ev.append(('add_link', g, 'a', 'b'))
            ev.append(('add_link', g, 'a', 'c'))
            ev.append(('upd_prop', g, 'a', 'P', '1'))
            ev.append(('upd_prop', g, 'b', 'P', '2'))
            ev.append(('upd_prop', g, 'a', 'Type', 'Facility'))      # the same node id has another type in the other graphs
            # a single node "moved" by rewriting its graph id: refused (whole graphs are re-keyed, not nodes) - if it is
            # carried out, the frame condition judges what happened to the other graph
            ev.append(('upd_prop', g, 'a', 'GraphID', GIDS[(GIDS.index(g) + 1) % len(GIDS)]))
            ev.append(('upd_props', g, 'a'))
            ev.append(('unset_prop', g, 'a', 'P'))
            ev.append(('upd_all', g, 'P', 'all'))
            ev.append(('upd_link', g, 'a', 'b'))
            ev.append(('unset_link', g, 'a', 'b'))
            ev.append(('delete_graph', g))
        for s, t in (('G1', 'G2'), ('G1', 'G3'), ('G2', 'G1'), ('G2', 'G3'), ('G3', 'G1')):
            ev.append(('clone', s, t))
        ev.append(('delete_all',))
        # one more importer comes to life - the other way to call its constructor (with a logger): changes nothing
        ev.append(('new_importer', 'logger'))
        return ev

    def apply(self, ev):
        k = ev[0]
        self._hist = getattr(self, '_hist', []) + [ev]
        try:
            if k == 'import':
                self.imp().import_graph_from_string(graph_string=PAYLOADS[ev[2]], graph_id=ev[1])
            elif k == 'import_direct':
                self.imp().import_graph_from_string_direct(graph_string=DIRECT[ev[1]])
            elif k == 'import_direct_file':
                _via_file(DIRECT[ev[1]], lambda path: self.imp().import_graph_from_file_direct(graph_file=path))
            elif k == 'import_direct_mixed':
                doc = _mixed_payload(ev[1], ev[2])
                if ev[3] == 'string':
                    self.imp().import_graph_from_string_direct(graph_string=doc)
                else:
                    _via_file(doc, lambda path: self.imp().import_graph_from_file_direct(graph_file=path))
            elif k == 'import_bad':
                self.imp().import_graph_from_string(graph_string=BAD[ev[2]], graph_id=ev[1])
            elif k == 'add_node':
                self.graph(ev[1]).add_node(node_id=ev[2], label='NetworkNode', props={'Name': 'n' + ev[2], 'Type': 'VM'})
            elif k == 'delete_node':
                self.graph(ev[1]).delete_node(node_id=ev[2])
            elif k == 'add_link':
                self.graph(ev[1]).add_link(node_a=ev[2], rel='connects', node_b=ev[3], props={'L': 'x'})
            elif k == 'upd_prop':
                self.graph(ev[1]).update_node_property(node_id=ev[2], prop_name=ev[3], prop_val=ev[4])
            elif k == 'upd_props':
                self.graph(ev[1]).update_node_properties(node_id=ev[2], props={'P': 'm', 'R': 'm'})
            elif k == 'unset_prop':
                self.graph(ev[1]).unset_node_property(node_id=ev[2], prop_name=ev[3])
            elif k == 'upd_all':
                self.graph(ev[1]).update_nodes_property(prop_name=ev[2], prop_val=ev[3])
            elif k == 'upd_link':
                g = self.graph(ev[1])
                kind, _ = g.get_link_properties(node_a=ev[2], node_b=ev[3])
                g.update_link_property(node_a=ev[2], node_b=ev[3], kind=kind, prop_name='LP', prop_val='v')
            elif k == 'unset_link':
                g = self.graph(ev[1])
                kind, _ = g.get_link_properties(node_a=ev[2], node_b=ev[3])
                g.unset_link_property(node_a=ev[2], node_b=ev[3], kind=kind, prop_name='LP')
            elif k == 'delete_graph':
                self.graph(ev[1]).delete_graph()
            elif k == 'clone':
                self.graph(ev[1]).clone_graph(new_graph_id=ev[2])
            elif k == 'delete_all':
                self.imp().delete_all_graphs()
            elif k == 'new_importer':
                import logging
                lg = logging.getLogger('c04-importer')
                lg.propagate = False
                if not lg.handlers:
                    lg.addHandler(logging.NullHandler())
                type(self.imp())(logger=lg)
            else:
                raise AssertionError(ev)
            return ('ok',)
        except AssertionError:
            raise
        except Exception as e:
            return ('raise', type(e).__name__)

    # ------------------------------------------------------------ oracles
    def check(self, pre, ev, outcome):
        v = []
        k = ev[0]
        if k == 'delete_all':
            return v
        target = ev[2] if k == 'clone' else ev[1]
        post = self.observe()
        for gid in set(pre) | set(post):
            if gid == target:
                continue
            if pre.get(gid) != post.get(gid):
                v.append((f'frame/{self.flavour}/{k}',
                          f'[{self.flavour}] {ev} (outcome {outcome}) addressed to {target} changed graph {gid}: '
                          f'before={_brief(pre.get(gid))} after={_brief(post.get(gid))}'))
        # re-import under an id: the shared store replaces the graph of that id, the per-graph store keeps a live graph
        # (documented skip) - in both cases the result is exactly one of the two graphs, never a mixture
        if k == 'import_direct_mixed' and outcome[0] == 'ok':
            v.append((f'import-accepts-mixed-graph-ids/{self.flavour}/{ev[3]}',
                      f'[{self.flavour}] {ev}: a document whose nodes name graphs {ev[1]} and {ev[2]} was imported'))
        if k in ('import', 'import_direct', 'import_direct_file') and outcome[0] == 'ok':
            want = PAYLOAD_CANON[ev[2]] if k == 'import' else DIRECT_CANON
            got = _strip_gid(post[target]) if target in post else None
            had = _strip_gid(pre[target]) if target in pre else None
            allowed = [want] if (self.flavour == 'shared' or had is None or k != 'import') else [had]
            if got not in allowed:
                v.append((f'import-content/{self.flavour}/{k}',
                          f'[{self.flavour}] {ev}: graph {target} holds {_brief(post.get(target))}, expected '
                          f'{"the imported payload" if allowed == [want] else "the live graph kept (documented skip)"}'))
        if k == 'import_bad' and outcome[0] != 'ok' and post.get(target) != pre.get(target):
            # an import that fails has not replaced anything: the graph it was addressed to is what it was
            v.append((f'failed-import-changed-target/{self.flavour}',
                      f'[{self.flavour}] {ev} raised {outcome[1:]} but graph {target} went from {_brief(pre.get(target))} to {_brief(post.get(target))}'))
        if k == 'import_bad' and outcome[0] == 'ok' and (self.flavour == 'shared' or target not in pre):   # (per-graph store: documented skip)
            v.append((f'import-accepts-node-without-id/{self.flavour}', f'[{self.flavour}] {ev} returned normally'))
        # no two stored nodes share an internal identity: a successful add_node adds exactly one node to its graph
        if k == 'add_node' and outcome[0] == 'ok':
            before = sorted((n[0][1] for n in pre.get(target, ((), ()))[0]), key=repr)
            after = sorted((n[0][1] for n in post.get(target, ((), ()))[0]), key=repr)
            if after != sorted(before + [ev[2]], key=repr):
                v.append((f'identity/{self.flavour}/add_node-overwrote',
                          f'[{self.flavour}] {ev}: graph {target} held NodeIDs {before}, now {after}'))
        # "the same content as its source under the NEW id": judged only when the target id held no graph before
        if k == 'clone' and outcome[0] == 'ok' and ev[2] not in pre:
            src = post.get(ev[1])
            dst = post.get(ev[2])
            if (src is None) != (dst is None) or (src is not None and _strip_gid(src) != _strip_gid(dst)):
                v.append((f'clone-content/{self.flavour}', f'[{self.flavour}] clone {ev[1]}->{ev[2]}: source={_brief(src)} clone={_brief(dst)}'))
        return v

    def invariant(self):
        v = []
        fl = self.flavour
        if fl == 'shared':
            st = world.shared_store()
            for n, d in st.graphs.nodes(data=True):
                if 'GraphID' not in d or 'NodeID' not in d:
                    v.append((f'integrity/{fl}/orphan-node', f'stored node {n} lacks GraphID/NodeID: {d}'))
            x = cross_graph_edges(st.graphs)
            if x:
                v.append((f'integrity/{fl}/cross-graph-edge', f'edges join nodes of different graphs: {x}'))
        else:
            st = world.disjoint_store()
            for gid, g in st.graphs.items():
                for n, d in g.nodes(data=True):
                    if d.get('GraphID') != gid or 'NodeID' not in d:
                        v.append((f'integrity/{fl}/foreign-node', f'node {n} stored under {gid} carries {d}'))
        # what the public API shows must be what is stored for that graph id (read-path isolation)
        raw = self.raw_graphs()
        for gid in GIDS:
            if gid not in raw:
                continue     # reading an absent id is itself an operation on the per-graph store (creates a placeholder)
            g = self.graph(gid)
            want = sorted((d.get('NodeID') for _, d in raw[gid].nodes(data=True)), key=repr)
            try:
                got = sorted((g.list_all_node_ids()), key=repr)
            except Exception:
                got = None
            if got != want:
                v.append((f'read-isolation/{fl}/list_all_node_ids', f'{gid}: API lists {got}, store holds {want}'))
            # a graph whose own nodes and links all carry Class validates, whatever else lives in the store
            own_ok = all(d.get('Class') for _, d in raw[gid].nodes(data=True)) and all(d.get('Class') for _, _, d in raw[gid].edges(data=True))
            if own_ok and want and None not in [d.get('NodeID') for _, d in raw[gid].nodes(data=True)]:
                try:
                    g.validate_graph()
                except Exception as e:
                    v.append((f'read-isolation/{fl}/validate_graph', f'{gid} is complete but validate_graph() raised {type(e).__name__}: {e}'))
            # the listings by class, and by class and type, are listings of THIS graph
            for cls_ in ('NetworkNode',):
                for ty in (None, 'VM', 'Facility'):
                    exp_ = sorted((d.get('NodeID') for _, d in raw[gid].nodes(data=True)
                                   if d.get('Class') == cls_ and (ty is None or d.get('Type') == ty)), key=repr)
                    try:
                        lst = g.get_all_nodes_by_class(label=cls_) if ty is None else g.get_all_nodes_by_class_and_type(label=cls_, ntype=ty)
                        lst = sorted(lst, key=repr)
                    except Exception as e:
                        lst = f'raises {type(e).__name__}'
                    if lst != exp_:
                        v.append((f'read-isolation/{fl}/listing-by-class' + ('' if ty is None else '-and-type'),
                                  f'{gid}: {cls_}/{ty} lists {lst}, store holds {exp_}'))
            if want:
                for nid in set(want):
                    if want.count(nid) > 1:
                        continue
                    rawp = [dict(d) for _, d in raw[gid].nodes(data=True) if d.get('NodeID') == nid][0]
                    if 'Class' not in rawp:
                        continue           # an invalid node of this very graph (payload P3); reading it is not an isolation question
                    try:
                        _, props = g.get_node_properties(node_id=nid)
                    except Exception as e:
                        v.append((f'read-isolation/{fl}/get_node_properties-raises', f'{gid}/{nid}: {type(e).__name__}: {e}'))
                        continue
                    rawp.pop('Class', None)
                    if props != rawp:
                        v.append((f'read-isolation/{fl}/get_node_properties', f'{gid}/{nid}: API {props} store {rawp}'))
        # look-ahead probes: the next allocation must not disturb any resident graph
        snap = self.fast_snapshot()
        pre = self.observe()
        probes = [('add_node', 'PROBE', 'p'), ('import', 'PROBE', 'P2')]
        # also allocate inside every id the store knows (resident graphs and emptied ones): the new node must not take
        # over the identity of a node of that graph either
        known = set(pre) | (set(k for k in world.disjoint_store().graphs.keys()) if fl == 'disjoint' else set())
        probes += [('add_node', gid, 'probe-node') for gid in sorted(known) if gid in GIDS]
        for probe in probes:
            out = self.apply(probe)
            post = self.observe()
            if probe[0] == 'add_node' and probe[1] != 'PROBE' and out[0] == 'ok':
                before = sorted((n[0][1] for n in pre.get(probe[1], ((), ()))[0]), key=repr)
                after = sorted((n[0][1] for n in post.get(probe[1], ((), ()))[0]), key=repr)
                if after != sorted(before + [probe[2]], key=repr):
                    v.append((f'identity/{fl}/probe-add_node-overwrote',
                              f'[{fl}] adding a node to {probe[1]} (NodeIDs {before}) left {after}'))
            for gid in pre:
                if gid == probe[1]:
                    continue
                if pre[gid] != post.get(gid):
                    v.append((f'frame/{fl}/probe-{probe[0]}',
                              f'[{fl}] allocating in a fresh graph ({probe}) changed resident graph {gid}: '
                              f'before={_brief(pre[gid])} after={_brief(post.get(gid))}'))
            self.restore(snap)
        return v


def _strip_gid(c):
    nodes, edges = c
    return (tuple((k, tuple(p for p in props if p[0] != 'GraphID')) for k, props in nodes), edges)


def _brief(c):
    if c is None:
        return None
    nodes, edges = c
    return {'nodes': [(k[1], dict((a, b[1]) for a, b in props)) for k, props in nodes],
            'edges': [([e[1] for e in ends], dict((a, b[1]) for a, b in props)) for ends, props in edges]}


SHARED = StoreModel('shared')
DISJOINT = StoreModel('disjoint')
REPLAY = {'shared': SHARED, 'disjoint': DISJOINT}


def run(report):
    depth = 3 if report.tier == 'quick' else 4
    for name, m in REPLAY.items():
        g = bfs(report, name, m, depth=depth, chunk=4,
                rule='histories of graph operations over graph ids G1..G3 sharing NodeIDs a,b,c; state = canonical per-graph '
                     'content + internal-id layout signature; every (state,event) executed once on the real store')
        report.require(any(k.endswith(':ok') for k in g['outcomes']) and any(k.endswith(':raise') for k in g['outcomes']),
                       f'{name}: both succeeding and failing operations')
        report.require(g['outcomes'].get('clone:ok', 0) > 0, f'{name}: successful clones')
    report.assumptions.append('operations are issued through the public property-graph / importer API; property values are short strings')
