"""shared runner for C07 / C08 / C09 (fimmc/topo.py)"""
from fimmc import world
from fimmc.engine import bfs
from fimmc.topo import TopoModel

world.install_uuid_seam()


class _Replayable(dict):
    """REPLAY mapping: group names are '<flavour>:<roots>' - any of them replays on the flavour's model"""
    def __missing__(self, key):
        return self[key.split(':')[0]]


def make_models(oracle):
    return _Replayable({'exp': TopoModel('exp', oracles=(oracle,)), 'sub': TopoModel('sub', oracles=(oracle,))})


def run_topo(report, models, oracle, depths):
    """depths: {(flavour, root): depth}"""
    for fl, m in list(models.items()):
        by_depth = {}
        for (f2, root), d in depths.items():
            if f2 == fl:
                by_depth.setdefault(d, []).append(root)
        for d, roots in sorted(by_depth.items()):
            m2 = m
            m2.roots = (lambda r=roots: list(r))
            g = bfs(report, f'{fl}:{"+".join(roots)}', m2, depth=d, chunk=2,
                    rule=f'histories of topology-building calls ({fl} flavour) from roots {roots} to depth {d}; state = canonical '
                         f'model graph with library-generated ids renamed to structural paths; every (state,event) executed on the '
                         f'real API from a restored store snapshot')
    return report.groups
