"""C17 - sliver comparison reports exactly the differences between two slivers.  Engine E2.

Base slivers x all single edits and all ordered pairs of edits applied to a deep copy; the library's diff() is compared
with an independent value-based reference comparison of the two trees (tracked properties compared by canonical JSON).
"""
import copy
import itertools
import json

from fim.slivers.network_node import NodeSliver, NodeType
from fim.slivers.attached_components import ComponentSliver, ComponentType, AttachedComponentsInfo
from fim.slivers.network_service import NetworkServiceSliver, NetworkServiceInfo, ServiceType
from fim.slivers.interface_info import InterfaceSliver, InterfaceInfo, InterfaceType
from fim.slivers.capacities_labels import Labels, Capacities
from fim.slivers.json_data import UserData
from fim.slivers.topology_diff import WhatsModifiedFlag as F

from fimmc.engine import explore_cases

LEVEL = 'exploration'


# ------------------------------------------------------------------------------------------ builders
def mk_if(name, kind=InterfaceType.DedicatedPort, subs=(), **props):
    s = InterfaceSliver()
    s.set_name(name)
    s.set_type(kind)
    s.node_id = 'id-' + name
    _props(s, props)
    if subs:
        ii = InterfaceInfo()
        for x in subs:
            ii.add_interface(x)
        s.interface_info = ii
    return s


def mk_ns(name, ifs=(), nstype=ServiceType.OVS, **props):
    s = NetworkServiceSliver()
    s.set_name(name)
    s.set_type(nstype)
    s.node_id = 'id-' + name
    _props(s, props)
    if ifs:
        ii = InterfaceInfo()
        for x in ifs:
            ii.add_interface(x)
        s.interface_info = ii
    return s


def mk_comp(name, ctype, ns=None, **props):
    s = ComponentSliver()
    s.set_name(name)
    s.set_type(ctype)
    s.node_id = 'id-' + name
    _props(s, props)
    if ns is not None:
        nsi = NetworkServiceInfo()
        nsi.add_network_service(ns)
        s.network_service_info = nsi
    return s


def mk_node(name, comps=(), nss=(), **props):
    s = NodeSliver()
    s.set_name(name)
    s.set_type(NodeType.VM)
    s.node_id = 'id-' + name
    _props(s, props)
    if comps:
        a = AttachedComponentsInfo()
        for c in comps:
            a.add_device(c)
        s.attached_components_info = a
    if nss:
        n = NetworkServiceInfo()
        for x in nss:
            n.add_network_service(x)
        s.network_service_info = n
    return s


VALS = {'labels': [Labels(vlan='100'), Labels(vlan='200', local_name='p'), Labels(vlan='100', local_name='added-field'), Labels()],
        'capacities': [Capacities(bw=10), Capacities(bw=25, unit=1), Capacities()],      # (#2, nothing set: only in base 'empties')
        'user_data': [{'k': 1}, {'k': 2, 'z': [1]}]}


def _props(s, props):
    for k, i in props.items():
        _set(s, k, i)


def _set(s, prop, i):
    if i is None:
        v = None
    elif prop == 'user_data':
        v = UserData(copy.deepcopy(VALS[prop][i]))
    else:
        v = copy.deepcopy(VALS[prop][i])
    s.set_property(prop, v)


def smartnic(name='c1', nsub=2):
    subs = [mk_if(f'sub{k}', InterfaceType.SubInterface, labels=0) for k in range(nsub)]
    p1 = mk_if(f'{name}-p1', subs=subs, capacities=0)
    p2 = mk_if(f'{name}-p2')
    return mk_comp(name, ComponentType.SmartNIC, ns=mk_ns(f'{name}-l2ovs', [p1, p2]), labels=0)


BASES = {
    'bare': lambda: mk_node('n1'),
    'props': lambda: mk_node('n1', labels=0, capacities=0, user_data=0),
    # values that are present but have nothing set (e.g. what is left after subtracting a capacity from itself)
    'empties': lambda: mk_node('n1', comps=[mk_comp('c2', ComponentType.GPU, capacities=2, labels=3)], capacities=2, labels=3),
    'gpu': lambda: mk_node('n1', comps=[mk_comp('c2', ComponentType.GPU, user_data=0)], capacities=0),
    'nic': lambda: mk_node('n1', comps=[smartnic('c1', 2)]),
    'nic0': lambda: mk_node('n1', comps=[smartnic('c1', 0), mk_comp('c2', ComponentType.GPU)]),
    # a SmartNIC described without its network service (a card as first listed, before its ports are known)
    'nic-bare': lambda: mk_node('n1', comps=[mk_comp('c1', ComponentType.SmartNIC, labels=0), mk_comp('c2', ComponentType.GPU)]),
    'svc': lambda: mk_node('n1', nss=[mk_ns('ns1', [mk_if('i1', InterfaceType.AccessPort)], labels=0), mk_ns('ns2')]),
    'full': lambda: mk_node('n1', comps=[smartnic('c1', 1), mk_comp('c2', ComponentType.GPU)],
                            nss=[mk_ns('ns1', [mk_if('i1', InterfaceType.AccessPort)], user_data=0)], labels=0, user_data=1),
    # roots for the service-level and interface-level comparisons
    'S:ports': lambda: mk_ns('s1', [mk_if('p1', subs=[mk_if('sub0', InterfaceType.SubInterface, labels=0)]), mk_if('p2'),
                                    mk_if('sh', InterfaceType.SharedPort, capacities=0)], capacities=0),
    'S:empty': lambda: mk_ns('s1'),
    'I:port': lambda: mk_if('p1', subs=[mk_if('sub0', InterfaceType.SubInterface, labels=0, user_data=0),
                                        mk_if('sub1', InterfaceType.SubInterface)], labels=0),
    'I:bare': lambda: mk_if('p1'),
}


# ------------------------------------------------------------------------------------------ edits
def find(root, path):
    """path: tuple of ('comp', name) | ('ns', name) | ('if', name) steps from the root sliver"""
    cur = root
    for kind, name in path:
        if kind == 'comp':
            cur = cur.attached_components_info.get_device(name) if cur.attached_components_info else None
        elif kind == 'ns':
            cur = cur.network_service_info.get_network_service(name) if cur.network_service_info else None
        elif kind == 'if':
            cur = cur.interface_info.get_interface(name) if cur.interface_info else None
        if cur is None:
            return None
    return cur


def elements(root, path=()):
    """all (path, sliver) pairs of the tree"""
    out = [(path, root)]
    aci = getattr(root, 'attached_components_info', None)
    if aci:
        for n, c in aci.devices.items():
            out += elements(c, path + (('comp', n),))
    nsi = getattr(root, 'network_service_info', None)
    if nsi:
        for n, s in nsi.network_services.items():
            out += elements(s, path + (('ns', n),))
    ii = getattr(root, 'interface_info', None)
    if ii:
        for n, i in ii.interfaces.items():
            out += elements(i, path + (('if', n),))
    return out


def edits_for(root):
    ed = [('noop',)]
    for path, s in elements(root):
        for prop in ('labels', 'capacities', 'user_data'):
            for i in (0, 1, None) + ((2,) if prop == 'labels' else ()):      # labels #2 only ADDS a field to labels #0
                ed.append(('set', path, prop, i))
        ed.append(('equal_ud', path))
        if s.get_user_data() is not None:
            ed += [('scribble_ud', path), ('idiom_ud', path)]
        if isinstance(s, NodeSliver):
            ed += [('add', path, 'comp', 'cNew', 'gpu'), ('add', path, 'comp', 'cNic', 'nic'), ('add', path, 'ns', 'nsNew', None)]
        if isinstance(s, ComponentSliver) and not s.network_service_info:
            pass
        if isinstance(s, NetworkServiceSliver):
            ed += [('add', path, 'if', 'iNew', 'plain'), ('add', path, 'if', 'pNew', 'dedicated')]
        if isinstance(s, InterfaceSliver) and s.get_type() == InterfaceType.DedicatedPort:
            ed.append(('add', path, 'if', 'subNew', 'sub'))
        # a component's own service is part of the catalogue entry, not an editable element of the statement's edit space
        if path and not (len(path) >= 2 and path[-1][0] == 'ns' and path[-2][0] == 'comp'):
            ed.append(('rm', path))
    return ed


def apply_edit(root, e, other_side=False):
    """returns False when the edit is not applicable to this tree"""
    k = e[0]
    if k == 'noop':
        return True
    tgt = find(root, tuple(tuple(x) for x in e[1]))
    if tgt is None:
        return False
    if k == 'set':
        _set(tgt, e[2], e[3])
        return True
    if k == 'equal_ud':
        # the same JSON value written two ways: as an object, and as text with the members in another order
        if other_side:
            tgt.set_user_data(UserData('{"other": {"q": 2, "p": 1},  "same": [1, 2]}'))
        else:
            tgt.set_user_data(UserData({'same': [1, 2], 'other': {'p': 1, 'q': 2}}))
        return 'equal_ud'
    if k == 'scribble_ud':
        # the caller looks at the decoded user data of this side and scribbles on the throw-away result: no change
        ud = tgt.get_user_data()
        if ud is None or not isinstance(json.loads(ud.json), dict):
            return False
        got = ud.data
        got['scribbled'] = [0]
        return True
    if k == 'add':
        what, name, kind = e[2], e[3], e[4]
        if what == 'comp':
            if tgt.attached_components_info is None:
                tgt.attached_components_info = AttachedComponentsInfo()
            if name in tgt.attached_components_info.devices:
                return False
            tgt.attached_components_info.add_device(smartnic(name, 1) if kind == 'nic' else mk_comp(name, ComponentType.GPU))
        elif what == 'ns':
            if tgt.network_service_info is None:
                tgt.network_service_info = NetworkServiceInfo()
            if name in tgt.network_service_info.network_services:
                return False
            tgt.network_service_info.add_network_service(mk_ns(name))
        else:
            if tgt.interface_info is None:
                tgt.interface_info = InterfaceInfo()
            if name in tgt.interface_info.interfaces:
                return False
            tgt.interface_info.add_interface(
                mk_if(name, InterfaceType.SubInterface, labels=1) if kind == 'sub' else
                mk_if(name, InterfaceType.DedicatedPort, subs=[mk_if('s', InterfaceType.SubInterface)]) if kind == 'dedicated' else
                mk_if(name, InterfaceType.AccessPort))
        return True
    if k == 'rm':
        path = tuple(tuple(x) for x in e[1])
        parent = find(root, path[:-1])
        kind, name = path[-1]
        if parent is None:
            return False
        if kind == 'comp':
            parent.attached_components_info.remove_device(name)
        elif kind == 'ns':
            parent.network_service_info.remove_network_service(name)
        else:
            parent.interface_info.remove_interface(name)
        return True
    raise AssertionError(e)


# ------------------------------------------------------------------------------------------ reference comparison
def tracked(s):
    ud = s.get_user_data()
    return {'L': None if s.get_labels() is None else json.loads(s.get_labels().to_json() or '{}'),
            'C': None if s.get_capacities() is None else json.loads(s.get_capacities().to_json() or '{}'),
            'U': None if ud is None else json.loads(ud.json)}      # the text, not what a decode of it currently claims


FLAG = {'L': F.LABELS, 'C': F.CAPACITIES, 'U': F.USER_DATA}


def pflags(a, b):
    ta, tb = tracked(a), tracked(b)
    f = F.NONE
    for k in 'LCU':
        if ta[k] != tb[k]:
            f |= FLAG[k]
    return f


def kids(s, attr, field):
    info = getattr(s, attr, None)
    return dict(getattr(info, field)) if info else {}


def ref_if(a, b):
    """reference comparison of two interface slivers: (self flags, added, removed, {name: flags})"""
    ka, kb = kids(a, 'interface_info', 'interfaces'), kids(b, 'interface_info', 'interfaces')
    mod = {}
    for n in set(ka) & set(kb):
        mod[n] = pflags(ka[n], kb[n])
    return pflags(a, b), set(kb) - set(ka), set(ka) - set(kb), mod


def subtree_equal(a, b):
    ea = [(p, type(s).__name__, tracked(s)) for p, s in elements(a)]
    eb = [(p, type(s).__name__, tracked(s)) for p, s in elements(b)]
    return sorted(ea, key=repr) == sorted(eb, key=repr)


def subs_differ(a, b):
    _, add, rem, mod = ref_if(a, b)
    return bool(add or rem or any(f != F.NONE for f in mod.values()))


def ref_ns(a, b):
    """(self flags, added, removed, {name: (must_flags, may_flags)})"""
    ka, kb = kids(a, 'interface_info', 'interfaces'), kids(b, 'interface_info', 'interfaces')
    mod = {}
    for n in set(ka) & set(kb):
        must = pflags(ka[n], kb[n])
        may = F.NONE
        if ka[n].get_type() == InterfaceType.DedicatedPort:
            if subs_differ(ka[n], kb[n]):
                must |= F.SUB_INTERFACES
            elif not subtree_equal(ka[n], kb[n]):
                may |= F.SUB_INTERFACES       # only the port's own properties differ: unspecified for this flag
        mod[n] = (must, may)
    return pflags(a, b), set(kb) - set(ka), set(ka) - set(kb), mod


def ns_subtree_subs_differ(a, b):
    """do two services differ in anything below their ports (sub-interfaces added/removed/modified)?"""
    ka, kb = kids(a, 'interface_info', 'interfaces'), kids(b, 'interface_info', 'interfaces')
    for n in set(ka) & set(kb):
        if subs_differ(ka[n], kb[n]):
            return True
    return False


def ref_node(a, b):
    ca, cb = kids(a, 'attached_components_info', 'devices'), kids(b, 'attached_components_info', 'devices')
    sa, sb = kids(a, 'network_service_info', 'network_services'), kids(b, 'network_service_info', 'network_services')
    cmod = {}
    for n in set(ca) & set(cb):
        must = pflags(ca[n], cb[n])
        may = F.NONE
        if ca[n].get_type() == ComponentType.SmartNIC:
            na = list(kids(ca[n], 'network_service_info', 'network_services').values())
            nb = list(kids(cb[n], 'network_service_info', 'network_services').values())
            if na and nb:
                if ns_subtree_subs_differ(na[0], nb[0]):
                    must |= F.SUB_INTERFACES
                elif not subtree_equal(na[0], nb[0]):
                    may |= F.SUB_INTERFACES   # service's own ports/properties edited: unspecified for this flag
        cmod[n] = (must, may)
    smod = {}
    for n in set(sa) & set(sb):
        smod[n] = (pflags(sa[n], sb[n]), F.NONE)
    return dict(self=pflags(a, b), cadd=set(cb) - set(ca), crem=set(ca) - set(cb), cmod=cmod,
                sadd=set(sb) - set(sa), srem=set(sa) - set(sb), smod=smod)


def names(xs):
    return sorted(x.get_name() for x in xs)


def check_mod(v, where, got_list, want, ctx):
    got = {}
    for s, f in got_list:
        if s.get_name() in got:
            v.append((f'{where}/reported-twice', f'{s.get_name()} listed twice {ctx}'))
        got[s.get_name()] = f
    for n, (must, may) in want.items():
        g = got.get(n, F.NONE)
        missing = must & ~g
        extra = g & ~(must | may)
        for bit in (F.LABELS, F.CAPACITIES, F.USER_DATA, F.SUB_INTERFACES):
            if bit in missing and missing != F.NONE:
                v.append((f'{where}/missed/{bit.name}', f'{n}: reported {g!r}, must include {must!r} {ctx}'))
            if bit in extra and extra != F.NONE:
                v.append((f'{where}/spurious/{bit.name}', f'{n}: reported {g!r}, only {must | may!r} differ {ctx}'))
    for n in set(got) - set(want):
        v.append((f'{where}/unknown-element', f'{n} reported modified but is not common to both {ctx}'))


def eval_case(case):
    base, edits = case[0], [tuple(e) for e in case[1]]
    x = BASES[base]()
    y = copy.deepcopy(x)
    equal_ud = False
    for e in edits:
        if e[0] == 'idiom_ud':
            # the usual way to change user data: take the decoded value of the OLD side, edit it, store it on the new side
            path = tuple(tuple(q) for q in e[1])
            tx, ty = find(x, path), find(y, path)
            if tx is None or ty is None or tx.get_user_data() is None or not isinstance(json.loads(tx.get_user_data().json), dict):
                return {'v': [], 'nt': None, 'out': 'inapplicable'}
            cfg = tx.get_user_data().data
            cfg['changed-by-idiom'] = True
            ty.set_user_data(UserData(cfg))
            continue
        r = apply_edit(y, _tup(e))
        if r is False:
            return {'v': [], 'nt': None, 'out': 'inapplicable'}
        if r == 'equal_ud':
            # equal-valued user data set on BOTH sides (two distinct objects)
            apply_edit(x, _tup(e), other_side=True)
            equal_ud = True
    v = []
    ctx = f'[base {base} edits {edits}]'
    for a, b, direction in ((x, y, 'fwd'), (y, x, 'rev')):
        try:
            d = a.diff(b)
        except Exception as e:
            v.append((f'raises/{type(e).__name__}', f'diff raised {e} {ctx} ({direction})'))
            continue
        if isinstance(a, NodeSliver):
            r = ref_node(a, b)
            empty = (r['self'] == F.NONE and not r['cadd'] and not r['crem'] and not r['sadd'] and not r['srem']
                     and all(m == F.NONE for m, _ in r['cmod'].values()) and all(m == F.NONE for m, _ in r['smod'].values()))
            may_any = any(m != F.NONE for _, m in r['cmod'].values())
            if d is None:
                if not empty:
                    what = 'services' if (r['sadd'] or r['srem']) else 'components' if (r['cadd'] or r['crem']) else 'properties'
                    v.append((f'node/none-but-differs/{what}', f'diff is None but slivers differ: {_brief(r)} {ctx} ({direction})'))
                continue
            if empty and not may_any:
                v.append(('node/spurious-difference' + ('/equal-user-data' if equal_ud else ''),
                          f'identical slivers reported different: {d} {ctx} ({direction})'))
            if names(d.added.components) != sorted(r['cadd']):
                v.append(('node/components-added', f'{names(d.added.components)} expected {sorted(r["cadd"])} {ctx} ({direction})'))
            if names(d.removed.components) != sorted(r['crem']):
                v.append(('node/components-removed', f'{names(d.removed.components)} expected {sorted(r["crem"])} {ctx} ({direction})'))
            if names(d.added.services) != sorted(r['sadd']):
                v.append(('node/services-added', f'{names(d.added.services)} expected {sorted(r["sadd"])} {ctx} ({direction})'))
            if names(d.removed.services) != sorted(r['srem']):
                v.append(('node/services-removed', f'{names(d.removed.services)} expected {sorted(r["srem"])} {ctx} ({direction})'))
            check_mod(v, 'node/self', d.modified.nodes, {a.get_name(): (r['self'], F.NONE)}, f'{ctx} ({direction})')
            check_mod(v, 'node/components-modified', d.modified.components, r['cmod'], f'{ctx} ({direction})')
            check_mod(v, 'node/services-modified', d.modified.services, r['smod'], f'{ctx} ({direction})')
        elif isinstance(a, NetworkServiceSliver):
            sf, add, rem, mod = ref_ns(a, b)
            empty = sf == F.NONE and not add and not rem and all(m == F.NONE for m, _ in mod.values())
            if d is None:
                if not empty:
                    v.append(('service/none-but-differs', f'diff is None but slivers differ {ctx} ({direction})'))
                continue
            if empty and not any(m != F.NONE for _, m in mod.values()):
                v.append(('service/spurious-difference' + ('/equal-user-data' if equal_ud else ''), f'{d} {ctx} ({direction})'))
            if names(d.added.interfaces) != sorted(add):
                v.append(('service/interfaces-added', f'{names(d.added.interfaces)} expected {sorted(add)} {ctx} ({direction})'))
            if names(d.removed.interfaces) != sorted(rem):
                v.append(('service/interfaces-removed', f'{names(d.removed.interfaces)} expected {sorted(rem)} {ctx} ({direction})'))
            check_mod(v, 'service/self', d.modified.services, {a.get_name(): (sf, F.NONE)}, f'{ctx} ({direction})')
            check_mod(v, 'service/interfaces-modified', d.modified.interfaces, mod, f'{ctx} ({direction})')
        else:
            sf, add, rem, mod = ref_if(a, b)
            empty = sf == F.NONE and not add and not rem and all(f == F.NONE for f in mod.values())
            if d is None:
                if not empty:
                    v.append(('interface/none-but-differs', f'diff is None but slivers differ {ctx} ({direction})'))
                continue
            if empty:
                v.append(('interface/spurious-difference' + ('/equal-user-data' if equal_ud else ''), f'{d} {ctx} ({direction})'))
            if names(d.added.interfaces) != sorted(add):
                v.append(('interface/subinterfaces-added', f'{names(d.added.interfaces)} expected {sorted(add)} {ctx} ({direction})'))
            if names(d.removed.interfaces) != sorted(rem):
                v.append(('interface/subinterfaces-removed', f'{names(d.removed.interfaces)} expected {sorted(rem)} {ctx} ({direction})'))
            check_mod(v, 'interface/self', d.modified.services, {a.get_name(): (sf, F.NONE)}, f'{ctx} ({direction})')
            check_mod(v, 'interface/subinterfaces-modified', d.modified.interfaces, {n: (f, F.NONE) for n, f in mod.items()},
                      f'{ctx} ({direction})')
    # symmetry: added(old->new) == removed(new->old)
    try:
        d1, d2 = x.diff(y), y.diff(x)
        if d1 is not None and d2 is not None:
            for fld in ('components', 'services', 'interfaces'):
                if names(getattr(d1.added, fld)) != names(getattr(d2.removed, fld)) or \
                        names(getattr(d1.removed, fld)) != names(getattr(d2.added, fld)):
                    v.append((f'symmetry/{fld}', f'added/removed not mirrored {ctx}'))
        elif (d1 is None) != (d2 is None):
            v.append(('symmetry/none', f'one direction reports a difference, the other none {ctx}'))
    except Exception:
        pass
    kinds = '+'.join(sorted({e[0] + (':' + str(e[2]) if e[0] in ('add', 'set') else '') for e in edits}))
    return {'v': v, 'nt': (base, tuple(edits)), 'out': f'{base[:2]}:{kinds}'}


def _brief(r):
    return {k: (sorted(v) if isinstance(v, set) else v) for k, v in r.items() if v}


def _tup(e):
    return tuple(_tup(x) if isinstance(x, (list, tuple)) else x for x in e)


def all_cases(tier):
    cases = []
    for base, mk in BASES.items():
        root = mk()
        single = edits_for(root)
        for e in single:
            cases.append((base, (e,)))
        for e1, e2 in itertools.product(single, repeat=2):
            if e1 != e2 and e1[0] != 'noop' and e2[0] != 'noop':
                cases.append((base, (e1, e2)))
        if tier == 'thorough':
            pool = _thin(single)
            if len(pool) <= 40:
                for e1, e2, e3 in itertools.product(pool, repeat=3):
                    if len({e1, e2, e3}) == 3 and 'noop' not in (e1[0], e2[0], e3[0]):
                        cases.append((base, (e1, e2, e3)))
    return cases


def _thin(single):
    """triples: keep structural edits and one value per (element, property)"""
    out = []
    for e in single:
        if e[0] == 'set' and e[3] not in (1, 2):
            continue
        out.append(e)
    return out


REPLAY = {'edits': eval_case}


def run(report):
    cases = all_cases(report.tier)
    g = explore_cases(report, 'edits', eval_case, cases, chunk=64,
                      rule='base sliver x every single edit and every ordered pair of edits (thorough: also ordered triples on the smaller bases) (add/remove component, node-level service, '
                           'interface, sub-interface; set each tracked property to two values or unset, on every element of the tree; '
                           'equal-valued user data on both sides; no edit), both diff directions; compared with an independent '
                           'value-based reference comparison; non-trivial = applicable edit script')
    report.require(g['outcomes'].get('inapplicable', 0) < g['evaluations'] / 2, 'most edit scripts applicable')
    report.assumptions += ['SUB_INTERFACES must be reported when sub-interfaces were added/removed/modified and must not be reported for '
                           'identical subtrees; when only a port\'s or SmartNIC service\'s own properties differ the flag is unspecified',
                           'tracked properties are compared by value (canonical JSON), which is what "changed" means in the statement']
