"""C01 - model serialization round trip is lossless and re-importable.

(a) E2: raw property graphs (all small typed shapes; adversarial string/int values, one-factor and pairwise; node keys that
    collide with internal ids) x 2 text formats x import entry points x 2 store flavours.
(b) E1: every model reached by the topology driver (fimmc/topo.py) to a depth bound, both flavours, + Topology.serialize/load.
(c) the advertisement files shipped with the repository.
"""
import itertools
import json
import os
import tempfile

import networkx as nx
from lxml import etree

from fim.graph.abc_property_graph import GraphFormat, ABCPropertyGraph
from fim.graph.networkx_property_graph import NetworkXPropertyGraph
from fim.graph.networkx_property_graph_disjoint import NetworkXPropertyGraphDisjoint
from fim.user.topology import ExperimentTopology, SubstrateTopology

from fimmc import world
from fimmc.canon import canon_nx
from fimmc.engine import explore_cases, bfs
from fimmc.topo import TopoModel

LEVEL = 'exploration'
world.install_uuid_seam()
V = ['', ' ', ' x ', '\t', 'a\nb', 'a\rb', 'a\r\nb', 'a\n\nb', 'a\n \t\nb\n\n', 'a"b', "a'b", '<&>', ']]>', '&amp;', 'é中', 'None', 'true', '0', '{"a": 1}', 0, 5, -1, 2 ** 40]
FORMATS = (GraphFormat.GRAPHML, GraphFormat.JSON_NODELINK)
NS = {'g': 'http://graphml.graphdrawing.org/xmlns'}


def importer(flavour):
    return world.shared_importer() if flavour == 'shared' else world.disjoint_importer()


def gclass(flavour):
    return NetworkXPropertyGraph if flavour == 'shared' else NetworkXPropertyGraphDisjoint


def stored(flavour, gid):
    """canonical content of graph gid straight from the store"""
    if flavour == 'shared':
        g = world.shared_store().graphs
        sub = g.subgraph([n for n, d in g.nodes(data=True) if d.get('GraphID') == gid])
    else:
        sub = world.disjoint_store().graphs.get(gid, nx.Graph())
    return canon_nx(sub, drop_graph_id=True), sorted({d.get('GraphID') for _, d in sub.nodes(data=True)}, key=repr), len(sub.nodes)


def check_markup(text, v, ctx):
    tree = etree.fromstring(bytes(text, 'utf-8'))
    keys = {(k.get('for'), k.get('attr.name')): k.get('id') for k in tree.findall('./g:key', NS)}
    for n in tree.findall('./g:graph/g:node', NS):
        d = n.find(f"g:data[@key='{keys.get(('node', 'Class'))}']", NS)
        cls = d.text if d is not None else None
        if n.get('labels') != f':GraphNode:{cls}':
            v.append(('markup/node-labels', f'node {n.get("id")} carries labels={n.get("labels")!r}, expected ":GraphNode:{cls}" {ctx}'))
            break
    for e in tree.findall('./g:graph/g:edge', NS):
        d = e.find(f"g:data[@key='{keys.get(('edge', 'Class'))}']", NS)
        cls = d.text if d is not None else None
        if e.get('label') != cls or cls is None:
            v.append(('markup/edge-label', f'edge {e.get("source")}-{e.get("target")} carries label={e.get("label")!r}, expected {cls!r} {ctx}'))
            break


_DECOY = {}


def _decoy_text(flavour, fmt):
    """serialization of a one-node model with its own graph id (built once per store flavour and format)"""
    key = (flavour, fmt.name)
    if key not in _DECOY:
        snap = world.snapshot_all()
        g = gclass(flavour)(graph_id='PATHDECOY', importer=importer(flavour))
        g.add_node(node_id='decoy-node', label='NetworkNode', props={'Name': 'decoy', 'Type': 'VM'})
        _DECOY[key] = g.serialize_graph(format=fmt)
        world.restore_all(snap)
    return _DECOY[key]


def roundtrip(flavour, gid, v, ctx, expect_validate=True):
    """all formats x entry points for the graph `gid` resident in the store of `flavour`"""
    imp = importer(flavour)
    src = gclass(flavour)(graph_id=gid, importer=imp)
    want = stored(flavour, gid)
    n = 0
    for fmt in FORMATS:
        fname = fmt.name
        try:
            text = src.serialize_graph(format=fmt)
        except Exception as e:
            v.append((f'serialize-raises/{fname}/{type(e).__name__}', f'{type(e).__name__}: {e} {ctx}'))
            continue
        if stored(flavour, gid) != want:
            v.append((f'serialize-mutates/{fname}', ctx))
        if fmt == GraphFormat.GRAPHML:
            check_markup(text, v, ctx)
        with tempfile.NamedTemporaryFile('w', suffix='.graph', delete=False, encoding='utf-8') as f:
            f.write(text)
            path = f.name
        try:
            entries = [('string', lambda: imp.import_graph_from_string(graph_string=text, graph_id=f'NEW-{fname}-s'), f'NEW-{fname}-s'),
                       ('file', lambda: imp.import_graph_from_file(graph_file=path, graph_id=f'NEW-{fname}-f'), f'NEW-{fname}-f')]
            for ename, fn, newid in entries:
                n += 1
                try:
                    g2 = fn()
                except Exception as e:
                    v.append((f'import-raises/{fname}/{ename}/{type(e).__name__}', f'{type(e).__name__}: {e} {ctx}'))
                    continue
                got = stored(flavour, newid)
                if got[0] != want[0]:
                    v.append((f'content/{fname}/{ename}', f'{_diff(want[0], got[0])} {ctx}'))
                if got[1] != [newid] and got[2]:
                    v.append((f'graph-id/{fname}/{ename}', f'imported under {got[1]} expected [{newid!r}] {ctx}'))
                if g2.graph_id != newid:
                    v.append((f'graph-id/{fname}/{ename}', f'handle has id {g2.graph_id} {ctx}'))
                try:
                    if expect_validate:
                        g2.validate_graph()
                except Exception as e:
                    v.append((f'validate-after-import/{fname}/{ename}', f'{type(e).__name__}: {e} {ctx}'))
                # serializing the copy again gives the same content
                try:
                    t2 = g2.serialize_graph(format=fmt)
                    if _parse(t2, fmt, drop_gid=True) != _parse(text, fmt, drop_gid=True):
                        v.append((f'reserialize-differs/{fname}/{ename}', ctx))
                except Exception as e:
                    v.append((f'reserialize-raises/{fname}/{ename}', f'{type(e).__name__}: {e} {ctx}'))
                if stored(flavour, gid) != want:
                    v.append((f'import-disturbs-source/{fname}/{ename}', ctx))
            # direct entries keep the graph id: import over a deleted source
            def reused_path():
                # the same file name served another model a moment ago (a loader that remembers a path must not mix them up)
                path2 = path + '.reused'
                try:
                    with open(path2, 'w', encoding='utf-8') as f:
                        f.write(_decoy_text(flavour, fmt))
                    imp.import_graph_from_file_direct(graph_file=path2)
                    imp.delete_graph(graph_id='PATHDECOY')
                    with open(path2, 'w', encoding='utf-8') as f:
                        f.write(text)
                    return imp.import_graph_from_file_direct(graph_file=path2)
                finally:
                    os.unlink(path2)
            def other_extension(kind):
                # the file is called after the other format (serialize(file_name='slice.json') writes GraphML by default);
                # what a file holds is decided by its content
                path3 = path + _misleading_suffix(fmt)
                try:
                    with open(path3, 'w', encoding='utf-8') as f:
                        f.write(text)
                    if kind == 'direct':
                        return imp.import_graph_from_file_direct(graph_file=path3)
                    imp.import_graph_from_file(graph_file=path3, graph_id=gid)
                    return imp.cast_graph(graph_id=gid) if hasattr(imp, 'cast_graph') else None
                finally:
                    os.unlink(path3)
            for ename, fn in (('string-direct', lambda: imp.import_graph_from_string_direct(graph_string=text)),
                              ('file-direct', lambda: imp.import_graph_from_file_direct(graph_file=path)),
                              ('file-direct-reused-path', reused_path),
                              ('file-direct-other-extension', lambda: other_extension('direct'))):
                n += 1
                snap = world.snapshot_all()
                try:
                    imp.delete_graph(graph_id=gid)
                    g2 = fn()
                    got = stored(flavour, gid)
                    if got[0] != want[0] or (got[2] and got[1] != [gid]):
                        v.append((f'content/{fname}/{ename}', f'{_diff(want[0], got[0])} ids {got[1]} {ctx}'))
                    if g2 is None or g2.graph_id != gid:
                        v.append((f'graph-id/{fname}/{ename}', f'handle {None if g2 is None else g2.graph_id} expected {gid} {ctx}'))
                    elif expect_validate:
                        try:
                            g2.validate_graph()
                        except Exception as e:
                            v.append((f'validate-after-import/{fname}/{ename}', f'{type(e).__name__}: {e} {ctx}'))
                except Exception as e:
                    v.append((f'import-raises/{fname}/{ename}/{type(e).__name__}', f'{type(e).__name__}: {e} {ctx}'))
                world.restore_all(snap)
        finally:
            os.unlink(path)
    # clone
    n += 1
    try:
        c = src.clone_graph(new_graph_id='CLONE')
        got = stored(flavour, 'CLONE')
        if got[0] != want[0] or (got[2] and got[1] != ['CLONE']):
            v.append(('content/clone', f'{_diff(want[0], got[0])} {ctx}'))
    except Exception as e:
        v.append((f'import-raises/clone/{type(e).__name__}', f'{type(e).__name__}: {e} {ctx}'))
    return n


def _parse(text, fmt, drop_gid=False):
    if fmt == GraphFormat.GRAPHML:
        with tempfile.NamedTemporaryFile('w', suffix='.graphml', encoding='utf-8') as f:
            f.write(text)
            f.flush()
            g = nx.read_graphml(f.name)
    else:
        g = nx.readwrite.node_link_graph(json.loads(text))
    return canon_nx(g, drop_graph_id=drop_gid)


def _misleading_suffix(fmt):
    return '.json' if fmt == GraphFormat.GRAPHML else '.graphml'


def _diff(want, got):
    wn, we = want
    gn, ge = got
    out = []
    for x in set(wn) ^ set(gn):
        out.append(('node', 'original-only' if x in wn else 'copy-only', x[0], dict((a, b) for a, b in x[1])))
    for x in set(we) ^ set(ge):
        out.append(('edge', 'original-only' if x in we else 'copy-only', x[0], dict((a, b) for a, b in x[1])))
    return out[:4]


# ------------------------------------------------------------------------------------------ (a) raw graphs
IDS = ['a', 'b', 'c']


def raw_graph(n, cls_idx, edge_idx, keys, vals):
    """vals: {('n', i, prop): value, ('e', pair_index, prop): value}"""
    g = nx.Graph()
    keyf = {'int': lambda i: i + 1, 'str': lambda i: str(i + 1), 'id': lambda i: IDS[i]}[keys]
    for i in range(n):
        d = dict(NodeID=IDS[i], Class=('NetworkNode', 'Link')[cls_idx[i]], Name=f'n{i}', Type='T')
        for (k, j, p), val in vals.items():
            if k == 'n' and j == i:
                d[p] = val
        g.add_node(keyf(i), **d)
    pairs = list(itertools.combinations(range(n), 2))
    for pi, ((i, j), e) in enumerate(zip(pairs, edge_idx)):
        if e:
            d = dict(Class=('has', 'connects')[e - 1])
            for (k, jj, p), val in vals.items():
                if k == 'e' and jj == pi:
                    d[p] = val
            g.add_edge(keyf(i), keyf(j), **d)
    return g


def eval_raw(case):
    n, cls_idx, edge_idx, keys, vals_l = case
    vals = {(k, j, p): V[vi] for (k, j, p, vi) in (tuple(x) for x in vals_l)}
    v = []
    ctx = f'[n={n} classes={cls_idx} edges={edge_idx} keys={keys} values={ {k: val for k, val in vals.items()} }]'
    cnt = 0
    for flavour in ('shared', 'disjoint'):
        world.reset_all()
        imp = importer(flavour)
        # resident decoy with the same NodeIDs, then the graph under test, then another decoy
        imp.storage.add_graph('DECOY1', raw_graph(3, (0, 0, 1), (1, 0, 2), 'int', {('n', 0, 'P'): 'decoy'}))
        imp.storage.add_graph('SRC', raw_graph(n, cls_idx, edge_idx, keys, vals))
        imp.storage.add_graph('DECOY2', raw_graph(2, (1, 0), (2,), 'str', {}))
        decoys = (stored(flavour, 'DECOY1'), stored(flavour, 'DECOY2'))
        cnt += roundtrip(flavour, 'SRC', v, f'{ctx} [{flavour}]')
        if (stored(flavour, 'DECOY1'), stored(flavour, 'DECOY2')) != decoys:
            v.append((f'import-disturbs-other-graph/{flavour}', ctx))
        if flavour == 'shared':
            # reassigning to an id that is occupied: the shared store replaces that graph, so the copy must be exact
            src = gclass(flavour)(graph_id='SRC', importer=imp)
            want = stored(flavour, 'SRC')
            for fmt in FORMATS:
                try:
                    imp.import_graph_from_string(graph_string=src.serialize_graph(format=fmt), graph_id='DECOY1')
                    got = stored(flavour, 'DECOY1')
                    if got[0] != want[0] or got[1] != ['DECOY1']:
                        v.append((f'content/{fmt.name}/string-into-occupied-id', f'{_diff(want[0], got[0])} {ctx}'))
                except Exception as e:
                    v.append((f'import-raises/{fmt.name}/string-into-occupied-id/{type(e).__name__}', f'{e} {ctx}'))
    nontriv = case if (any(edge_idx) or vals) else None
    return {'v': v, 'nt': nontriv, 'out': f'n{n}e{sum(1 for e in edge_idx if e)}v{len(vals)}', 'tags': {f'rt{cnt}'}}


def raw_cases(tier):
    cases = []
    for n in (1, 2, 3):
        npairs = n * (n - 1) // 2
        for cls_idx in itertools.product((0, 1), repeat=n):
            for edge_idx in itertools.product((0, 1, 2), repeat=npairs):
                cases.append((n, cls_idx, edge_idx, 'int', ()))
    shape = (3, (0, 1, 0), (1, 2, 0))
    for keys in ('str', 'id'):
        cases.append(shape + (keys, ()))
        cases.append((2, (0, 0), (1,), keys, ()))
    for vi in range(len(V)):
        cases.append(shape + ('int', (('n', 0, 'P', vi),)))
        cases.append(shape + ('str', (('e', 0, 'W', vi),)))
    strs = [i for i in range(len(V)) if isinstance(V[i], str)]
    ints = [i for i in range(len(V)) if not isinstance(V[i], str)]
    for a, b in itertools.combinations(strs, 2):
        cases.append(shape + ('int', (('n', 0, 'P', a), ('n', 1, 'Q', b))))
        if tier == 'thorough':
            cases.append(shape + ('id', (('n', 0, 'P', a), ('e', 1, 'W', b))))
    for a, b in itertools.combinations(ints, 2):
        cases.append(shape + ('int', (('n', 0, 'I', a), ('n', 1, 'J', b), ('e', 0, 'K', a))))
    for a in strs[:6]:
        for b in ints:
            cases.append(shape + ('str', (('n', 0, 'P', a), ('n', 0, 'I', b), ('e', 1, 'K', b))))
    # properties the library's validation treats as JSON text: nothing set ('' - what the codecs write for an empty value),
    # the database's word for nothing ('None'), and JSON
    for pname in ('Capacities', 'Labels', 'ERO', 'PathInfo', 'UserData'):
        for val in ('', 'None', '{"a": 1}'):
            cases.append(shape + ('int', (('n', 0, pname, V.index(val)),)))
    # ONE property name carrying a string on one element and an int on another (two nodes; a node and a link; two links)
    for a in [strs[0], strs[2], V.index('0'), V.index('true')]:
        for b in ints[:3]:
            cases.append(shape + ('int', (('n', 0, 'M', a), ('n', 1, 'M', b))))
            cases.append(shape + ('int', (('n', 0, 'M', b), ('e', 0, 'M', a))))
            cases.append(shape + ('id', (('e', 0, 'M', a), ('e', 1, 'M', b))))
    return cases


# ------------------------------------------------------------------------------------------ (b) models built by the topology API
class SerdesTopo(TopoModel):
    """topology driver whose state oracle is the serialization round trip of the reached model"""

    def invariant(self):
        v = []
        raw = self.raw()
        if not raw.nodes:
            return v
        gid = self.t.graph_model.graph_id
        ctx = f'[{self.flavour} topology, {len(raw.nodes)} elements]'
        snap = world.snapshot_all()
        roundtrip('shared', gid, v, ctx)
        want = stored('shared', gid)
        # Topology.serialize / load, both formats, string and file, keeping and reassigning the id
        cls = ExperimentTopology if self.flavour == 'exp' else SubstrateTopology
        for fmt in FORMATS:
            try:
                text = self.t.serialize(fmt=fmt)
                t2 = cls()
                t2.load(graph_string=text, new_graph_id='LOADED')
                if stored('shared', 'LOADED')[0] != want[0]:
                    v.append((f'content/{fmt.name}/topology-load-new-id', f'{_diff(want[0], stored("shared", "LOADED")[0])} {ctx}'))
                with tempfile.NamedTemporaryFile('w', suffix=_misleading_suffix(fmt), encoding='utf-8') as f:
                    # the file already holds an older, LONGER save of a model (saving again replaces it)
                    f.write(text + '\n' + text)
                    f.flush()
                    self.t.serialize(file_name=f.name, fmt=fmt)
                    world.shared_importer().delete_graph(graph_id=gid)
                    t3 = cls()
                    t3.load(file_name=f.name)
                    if stored('shared', gid)[0] != want[0] or t3.graph_model.graph_id != gid:
                        v.append((f'content/{fmt.name}/topology-load-file', f'{ctx}'))
                    if sorted(t3.nodes.keys()) != sorted(set(self._names(raw))):     # (a dict view; duplicate names are C07's matter)
                        v.append((f'content/{fmt.name}/topology-load-file-nodes', f'{sorted(t3.nodes.keys())} {ctx}'))
                world.restore_all(snap)
                t4 = cls(graph_string=text)
                if t4.graph_model.graph_id != gid:
                    v.append((f'graph-id/{fmt.name}/topology-ctor', f'{t4.graph_model.graph_id} {ctx}'))
                # history: the object that already HOLDS the model loads its text again (same id) - from text, then from a file
                t4.load(graph_string=text)
                if stored('shared', gid)[0] != want[0]:
                    v.append((f'content/{fmt.name}/topology-reload-same-object', f'after t.load(graph_string=t.serialize()): {_diff(want[0], stored("shared", gid)[0])} {ctx}'))
                with tempfile.NamedTemporaryFile('w', suffix='.xml' if fmt != GraphFormat.GRAPHML else '.json', encoding='utf-8') as f:
                    f.write(text)
                    f.flush()
                    t4.load(file_name=f.name)
                if stored('shared', gid)[0] != want[0] or sorted(t4.nodes.keys()) != sorted(set(self._names(raw))):
                    v.append((f'content/{fmt.name}/topology-reload-same-object-file', f'after loading its own file again the object lists {sorted(t4.nodes.keys())} {ctx}'))
                # the same text goes into the per-graph store
                world.reset_disjoint()
                g5 = world.disjoint_importer().import_graph_from_string(graph_string=text, graph_id='DJ')
                if stored('disjoint', 'DJ')[0] != want[0]:
                    v.append((f'content/{fmt.name}/per-graph-store', f'{_diff(want[0], stored("disjoint", "DJ")[0])} {ctx}'))
                g5.validate_graph()
            except Exception as e:
                import traceback
                v.append((f'topology-serdes-raises/{fmt.name}/{type(e).__name__}', f'{type(e).__name__}: {e} {ctx} {traceback.format_exc(limit=3)}'))
            world.restore_all(snap)
        world.restore_all(snap)
        return v

    @staticmethod
    def _names(raw):
        return [d['Name'] for d in raw.nodes.values() if d['Class'] == 'NetworkNode' and d['Type'] != 'Facility']

    def check(self, pre, ev, outcome):
        return []


TOPO = {'exp': SerdesTopo('exp', oracles=()), 'sub': SerdesTopo('sub', oracles=())}


class _R(dict):
    def __missing__(self, key):
        return TOPO[key.split(':')[1]] if key.startswith('topo:') else dict.__getitem__(self, key)


# ------------------------------------------------------------------------------------------ (c) shipped advertisement files
def eval_file(case):
    fname = case[0]
    v = []
    path = os.path.join('/repo', fname)
    for flavour in ('shared', 'disjoint'):
        world.reset_all()
        imp = importer(flavour)
        try:
            g = imp.import_graph_from_file_direct(graph_file=path)
        except Exception as e:
            v.append((f'file-import-raises/{type(e).__name__}', f'{fname}: {e}'))
            continue
        roundtrip(flavour, g.graph_id, v, f'[{fname} {flavour}]')
    return {'v': v, 'nt': tuple(case), 'out': 'file'}


def eval_mixed_ids(case):
    """a text whose nodes carry two different GraphIDs must be rejected by the direct entries"""
    fmt = FORMATS[case[0]]
    v = []
    world.reset_all()
    g = raw_graph(3, (0, 1, 0), (1, 2, 0), 'int', {})
    for i, (n, d) in enumerate(g.nodes(data=True)):
        d['GraphID'] = 'G1' if i < 2 else 'G2'
    text = '\n'.join(nx.generate_graphml(g)) if fmt == GraphFormat.GRAPHML else json.dumps(nx.readwrite.node_link_data(g))
    for flavour in ('shared', 'disjoint'):
        imp = importer(flavour)
        with tempfile.NamedTemporaryFile('w', suffix='.graph', encoding='utf-8') as f:
            f.write(text)
            f.flush()
            for ename, fn in (('string-direct', lambda: imp.import_graph_from_string_direct(graph_string=text)),
                              ('file-direct', lambda: imp.import_graph_from_file_direct(graph_file=f.name))):
                try:
                    fn()
                    v.append((f'mixed-graph-ids-accepted/{fmt.name}/{ename}', f'[{flavour}] a text with two GraphIDs was imported'))
                except Exception:
                    pass
    return {'v': v, 'nt': tuple(case), 'out': 'mixed'}


def eval_generated(case):
    """delegation / combined models produced by the C13 / C14 generators"""
    kind = case[0]
    v = []
    from checks import c14
    from fimmc.substrate import build_site, annotate
    world.reset_all()
    gids = []
    if kind == 'site-adms':
        t, ids = build_site('A', workers=2, facility=True, second_switch=True)
        arm = t.as_arm()
        w = ids['workers']
        annotate(arm, w[0]['node'], 'LC@d1')
        annotate(arm, w[0]['ports'][0], 'LC@d1')
        annotate(arm, w[1]['node'], 'LC@d2')
        annotate(arm, w[1]['comp'], 'L@d1,C@d2')
        annotate(arm, ids['facility']['port'], 'pooldef@d1', pool_tag='f')
        gids.append(arm.graph_id)
        for did, adm in arm.generate_adms(delegation_guids={'d1': 'ADM-1', 'd2': 'ADM-2'}).items():
            gids.append(adm.graph_id)
    else:
        m = c14.CBMModel('F4')
        m.build_root('F4')
        for a in case[1]:
            m.apply(('merge', a))
        gids = ['CBM'] + list(case[1])
    for gid in gids:
        roundtrip('shared', gid, v, f'[generated {kind} {case[1:]} graph {gid}]')
    return {'v': v, 'nt': tuple(case), 'out': kind}


REPLAY = _R({'raw': eval_raw, 'files': eval_file, 'mixed-ids': eval_mixed_ids, 'generated': eval_generated})


def run(report):
    g = explore_cases(report, 'raw', eval_raw, raw_cases(report.tier), chunk=8,
                      rule='raw property graphs: all typed shapes n<=3 (class per node, none/has/connects per pair), node keys colliding '
                           'with internal ids (ints, numeric strings, NodeIDs), every adversarial value alone on a node and on an edge '
                           'property, all pairs of string values on two properties, int pairs, string x int; x {GraphML, JSON} x '
                           '{string, file, string-direct, file-direct, clone} x {shared, per-graph store}, next to two decoy graphs with '
                           'the same NodeIDs; non-trivial = graph has an edge or a non-identity property')
    explore_cases(report, 'mixed-ids', eval_mixed_ids, [(0,), (1,)], chunk=1, workers=1, rule='texts carrying two GraphIDs x direct entries')
    files = [(f,) for f in sorted(os.listdir('/repo')) if f.endswith('-ad.graphml')]
    explore_cases(report, 'files', eval_file, files, chunk=1, rule='advertisement files shipped in the repository')
    gen = [('site-adms',), ('cbm', ('ADM-A',)), ('cbm', ('ADM-A', 'ADM-N1')), ('cbm', ('ADM-N1', 'ADM-B', 'ADM-A')),
           ('cbm', ('ADM-A', 'ADM-B', 'ADM-N1', 'ADM-N2')), ('cbm', ('ADM-N2', 'ADM-N1'))]
    explore_cases(report, 'generated', eval_generated, gen, chunk=1,
                  rule='aggregate, delegation and combined models produced by the generators of C13 / C14 (partitioned site model with '
                       'two delegation ids and a pool; combined model after 1-4 merges in different orders) through all entry points')
    q = report.tier == 'quick'
    for fl, roots, depth in (('exp', ['empty'], 3 if q else 4), ('exp', ['R1', 'R2'], 1 if q else 2), ('sub', ['S0', 'S1', 'S2'], 2 if q else 3)):
        m = TOPO[fl]
        m.roots = (lambda r=roots: list(r))
        bfs(report, f'topo:{fl}:{"+".join(roots)}', m, depth=depth, chunk=2,
            rule=f'every model reached by the topology driver ({fl} flavour, roots {roots}, depth {depth}): both formats x all import '
                 f'entries + Topology.serialize/load (string, file, new id) + import into the per-graph store')
    report.assumptions += ["value domain: XML-legal text; '\\r' and C0 controls are excluded (XML line-end normalisation is not the "
                           "library's doing); one Python type per attribute name (GraphML keys are typed)",
                           'graph ids of copies are fresh ids, plus re-import over an occupied id on the shared store (replace semantics); the per-graph store documents a skip there (see C04)']
