"""C10 - slice validation accepts a topology exactly when the constraint tables allow it.  Engine E2.

Every slice of the product (service type x interface count x site placement x interface kinds x declared site x each
constrained property x construction mode) is built through the real API and validated; the accept/reject outcome is
compared with an independent predicate over a PINNED copy of the constraint tables (a difference between the pinned
copy and the library's tables is itself a violation, so silent table edits are visible).
"""
import itertools

from fim.user.topology import ExperimentTopology
from fim.user.component import ComponentModelType
from fim.slivers.network_service import NetworkServiceSliver, ServiceType, MirrorDirection
from fim.slivers.network_node import NodeSliver, NodeType
from fim.slivers.interface_info import InterfaceType
from fim.slivers.capacities_labels import Labels
from fim.slivers.path_info import ERO, Path

from fimmc import world
from fimmc.engine import explore_cases

LEVEL = 'exploration'
world.install_uuid_seam()

MIRROR = ['mirror_port', 'mirror_vlan', 'mirror_direction']
# (min_interfaces, num_interfaces, num_sites, required_properties, forbidden_properties, required_interface_types); 0 = no limit
PINNED = {
    'P4': (1, 0, 1, [], MIRROR, []),
    'OVS': (1, 0, 1, [], MIRROR, []),
    'VLAN': (1, 0, 1, [], MIRROR + ['controller_url'], []),
    'MPLS': (1, 0, 1, [], MIRROR + ['controller_url'], []),
    'L2Path': (1, 2, 2, [], MIRROR + ['controller_url'], []),
    'L2STS': (2, 0, 2, [], MIRROR + ['controller_url', 'ero'], []),
    'L2PTP': (2, 2, 2, [], MIRROR + ['controller_url'], ['DedicatedPort', 'FacilityPort', 'SubInterface']),
    'L2Multisite': (1, 0, 0, [], MIRROR + ['controller_url'], []),
    'L2Bridge': (1, 0, 1, [], MIRROR + ['controller_url'], []),
    'FABNetv4': (1, 0, 1, [], MIRROR + ['controller_url'], []),
    'FABNetv6': (1, 0, 1, [], MIRROR + ['controller_url'], []),
    'PortMirror': (1, 1, 1, ['mirror_port', 'mirror_direction', 'site'], ['controller_url'], []),
    'L3VPN': (1, 0, 0, [], MIRROR + ['controller_url'], []),
    'FABNetv4Ext': (1, 0, 1, [], MIRROR + ['controller_url'], []),
    'FABNetv6Ext': (1, 0, 1, [], MIRROR + ['controller_url'], []),
}
PINNED_NODES = {
    'Server': (['site'], []), 'VM': (['site'], []), 'Container': (['site'], []),
    'Switch': ([], ['attached_components_info', 'image_type', 'image_ref']),
    'NAS': ([], ['attached_components_info', 'image_type', 'image_ref']),
    'Facility': ([], ['attached_components_info', 'image_type', 'image_ref', 'management_ip']),
}
KIND_PATTERNS = ('dedicated', 'shared', 'facility-first', 'sub-first', 'mixed', 'trunk', 'trunk-mixed')
PLACEMENTS = ('one-site', 'two-sites', 'three-sites')
# (ero-graph: an explicit route given as a graph reference, ero-z2a: a route with the reverse direction only - both are SET)
PROPS = (None, 'mirror_port', 'mirror_vlan', 'mirror_direction', 'controller_url', 'ero', 'mirror-complete', 'ero-graph', 'ero-z2a')


def table_drift():
    v = []
    lib = NetworkServiceSliver.ServiceConstraints
    names = {str(k) for k in lib}
    if names != set(PINNED):
        v.append(('table-drift/service-types', f'library table has {sorted(names)}, pinned copy {sorted(PINNED)}'))
    for t, rec in lib.items():
        p = PINNED.get(str(t))
        if p is None:
            continue
        got = (rec.min_interfaces, rec.num_interfaces, rec.num_sites, list(rec.required_properties), list(rec.forbidden_properties),
               [str(x) for x in rec.required_interface_types])
        for fld, a, b in zip(('min_interfaces', 'num_interfaces', 'num_sites', 'required_properties', 'forbidden_properties',
                              'required_interface_types'), got, p):
            if (sorted(a) if isinstance(a, list) else a) != (sorted(b) if isinstance(b, list) else b):
                v.append((f'table-drift/{t}/{fld}', f'ServiceConstraints[{t}].{fld} = {a}, pinned copy says {b}'))
        if rec.num_instances != 0:
            v.append((f'table-drift/{t}/num_instances', f'{rec.num_instances}'))
    for t, rec in NodeSliver.NodeConstraints.items():
        p = PINNED_NODES.get(str(t))
        if p is None or sorted(rec.required_properties) != sorted(p[0]) or sorted(rec.forbidden_properties) != sorted(p[1]):
            v.append((f'table-drift/node/{t}', f'{rec} vs pinned {p}'))
    if {str(k) for k in NodeSliver.NodeConstraints} != set(PINNED_NODES):
        v.append(('table-drift/node-types', ''))
    return v


def build_ports(t, n_if, placement, kinds):
    """creates n_if node-side ports according to the pattern; returns [(interface, kind, site)]"""
    sites = {'one-site': ['S1'] * 4, 'two-sites': ['S1', 'S2', 'S1', 'S2'], 'three-sites': ['S1', 'S2', 'S3', 'S1']}[placement]
    out = []
    for k in range(n_if):
        site = sites[k]
        kind = {'dedicated': 'DedicatedPort', 'shared': 'SharedPort',
                'facility-first': 'FacilityPort' if k == 0 else 'DedicatedPort',
                'sub-first': 'SubInterface' if k == 0 else 'DedicatedPort',
                'mixed': 'DedicatedPort' if k % 2 == 0 else 'SharedPort',
                'trunk': 'TrunkPort', 'trunk-mixed': 'DedicatedPort' if k % 2 == 0 else 'TrunkPort'}[kinds]
        if kind == 'TrunkPort':
            # a hand-built switch whose service carries a trunk port (a port kind no at-once guardrail knows about)
            sw = t.add_node(name=f'sw{k}', site=site, ntype=NodeType.Switch)
            sns = sw.add_network_service(name=f'sw{k}-ns', nstype=ServiceType.MPLS)
            out.append((sns.add_interface(name=f'sw{k}-t', itype=InterfaceType.TrunkPort), kind, site))
            continue
        if kind == 'FacilityPort':
            f = t.add_facility(name=f'fac{k}', site=site, labels=Labels(vlan='100'))
            out.append((f.interface_list[0], kind, site))
            continue
        n = t.add_node(name=f'n{k}', site=site)
        if kind == 'SharedPort':
            c = n.add_component(name='nic', model_type=ComponentModelType.SharedNIC_ConnectX_6)
            out.append((c.interface_list[0], kind, site))
        else:
            c = n.add_component(name='nic', model_type=ComponentModelType.SmartNIC_ConnectX_6)
            p1 = [i for i in c.interface_list if i.name.endswith('p1')][0]
            if kind == 'SubInterface':
                out.append((p1.add_child_interface(name='sub', labels=Labels(vlan='10')), kind, site))
            else:
                out.append((p1, kind, site))
    return out


def prop_kwargs(prop):
    if prop is None:
        return {}
    if prop == 'mirror-complete':
        return dict(mirror_port='p1', mirror_direction=MirrorDirection.Both)
    if prop == 'ero-graph':
        from fim.slivers.path_info import PathRepresentationType
        e = ERO(etype=PathRepresentationType.Graph)
        e.set('route-graph-id')
        return {'ero': e}
    if prop == 'ero-z2a':
        e = ERO()
        p = Path()
        p.set(z2a=['b', 'a'])
        e.set(p)
        return {'ero': e}
    if prop == 'ero':
        e = ERO()
        p = Path()
        p.set_symmetric(['a', 'b'])
        e.set(p)
        return {'ero': e}
    return {prop: {'mirror_port': 'p1', 'mirror_vlan': '100', 'mirror_direction': MirrorDirection.RX_Only,
                   'controller_url': 'http://c'}[prop]}


def predict(stype, ports, declared, prop):
    """('accept', site-after) | ('reject', why) | ('unspecified', why)"""
    mn, mx, ns, req, forb, rit = PINNED[stype]
    n = len(ports)
    if mn and n < mn:
        return ('reject', 'too few interfaces')
    if mx and n > mx:
        return ('reject', 'too many interfaces')
    props = set(prop_kwargs(prop))
    site_after = declared
    if ns:
        sites = {s for _, _, s in ports}
        if len(sites) > ns:
            return ('reject', 'too many sites')
        if len(sites) == 1:
            inferred = list(sites)[0]
            if declared and declared != inferred:
                return ('reject', 'declared site differs from inferred site')
            site_after = inferred
        elif len(sites) > 1 and declared:
            return ('reject', 'declared site on a multi-site service')
    elif declared and n:
        # types without a site limit: the library does not look at sites at all; agreement is not specified by the table
        site_set = {s for _, _, s in ports}
        if site_set != {declared}:
            return ('unspecified', 'declared site on a type without site limit')
    for r in req:
        if r == 'site':
            if not site_after:
                return ('reject', 'required site missing')
        elif r not in props:
            return ('reject', f'required property {r} missing')
    for f in forb:
        if f in props:
            return ('reject', f'forbidden property {f} set')
    if rit and any(k not in rit for _, k, _ in ports):
        return ('reject', 'interface type not permitted')
    return ('accept', site_after)


def eval_service(case):
    stype, n_if, placement, kinds, declared, prop, mode = case
    v = []
    world.reset_all()
    t = ExperimentTopology()
    ports = build_ports(t, n_if, placement, kinds)
    declared_site = {None: None, 'match': ports[0][2] if ports else 'S1', 'other': 'S9'}[declared]
    ctx = f'[{stype} x{n_if} {placement} {kinds} declared={declared_site} prop={prop} mode={mode}]'
    guard = stype == 'L2PTP' and any(k == 'SharedPort' for _, k, _ in ports)
    refused = None
    try:
        kw = dict(prop_kwargs(prop))
        if declared_site:
            kw['site'] = declared_site
        if mode == 'ctor':
            s = t.add_network_service(name='svc', nstype=ServiceType[stype], interfaces=[p for p, _, _ in ports], **kw)
        else:
            s = t.add_network_service(name='svc', nstype=ServiceType[stype], interfaces=[], **kw)
            for p, _, _ in ports:
                s.connect_interface(p)
    except Exception as e:
        refused = f'{type(e).__name__}: {e}'
    if guard:
        if refused is None:
            v.append((f'guardrail/not-refused-at-once/{mode}', f'SharedPort on L2PTP was accepted when the interface was attached {ctx}'))
        else:
            return {'v': v, 'nt': tuple(case), 'out': 'refused-at-once'}
    elif refused is not None:
        v.append((f'guardrail/refused-valid-combination/{mode}/{stype}', f'construction raised {refused} {ctx}'))
        return {'v': v, 'nt': tuple(case), 'out': 'bad-refusal'}
    exp = predict(stype, ports, declared_site, prop)
    try:
        t.validate()
        got = 'accept'
        why = ''
    except Exception as e:
        got = 'reject'
        why = f'{type(e).__name__}: {str(e)[:120]}'
    if exp[0] == 'unspecified':
        return {'v': v, 'nt': None, 'out': 'unspecified'}
    if got != exp[0]:
        clause = exp[1].replace(' ', '-') if exp[0] == 'reject' else 'valid'
        v.append((f'validate/{"accepts-invalid" if got == "accept" else "rejects-valid"}/{clause}',
                  f'validate() {got}s ({why}) but the tables say {exp} {ctx}'))
    elif got == 'accept':
        site = t.network_services['svc'].site
        if exp[1] != site and PINNED[stype][2]:
            v.append(('validate/site-not-recorded', f'after validation service site is {site!r}, expected {exp[1]!r} {ctx}'))
    # history: validating the unchanged topology again gives the same verdict (and leaves the recorded site alone)
    try:
        site1 = t.network_services['svc'].site
        t.validate()
        got2 = 'accept'
    except Exception:
        got2 = 'reject'
    if got2 != got:
        v.append(('validate/not-repeatable', f'first validate() {got}s, a second one on the unchanged topology {got2}s {ctx}'))
    elif got == 'accept' and t.network_services['svc'].site != site1:
        v.append(('validate/not-repeatable', f'second validate() changed the recorded site {site1!r} -> {t.network_services["svc"].site!r} {ctx}'))
    return {'v': v, 'nt': tuple(case), 'out': f'{exp[0]}'}


def _in_child(fn):
    """fn() in a forked child: class-level state of the library starts as in this process and dies with the child"""
    import os
    import pickle
    r, w = os.pipe()
    pid = os.fork()
    if pid == 0:
        try:
            os.close(r)
            try:
                out = fn()
            except BaseException as e:      # noqa
                out = {'v': [('harness/child-raised', f'{type(e).__name__}: {e}')], 'nt': None, 'out': 'raise'}
            with os.fdopen(w, 'wb') as f:
                pickle.dump(out, f)
        finally:
            os._exit(0)
    os.close(w)
    with os.fdopen(r, 'rb') as f:
        data = f.read()
    os.waitpid(pid, 0)
    return pickle.loads(data) if data else {'v': [('harness/child-died', '')], 'nt': None, 'out': 'raise'}


def eval_after_setters(case):
    """history: ANOTHER slice of this process had every constrained service property written through the setters before
    (and was validated, which records a site); then the case is judged as usual. Each case in a forked process."""
    def body():
        world.reset_all()
        d = ExperimentTopology()
        ports = build_ports(d, 2, 'one-site', 'dedicated')
        for i, prop in enumerate(p for p in PROPS if p is not None):
            svc = d.add_network_service(name=f'decoy{i}', nstype=ServiceType.L2Bridge, interfaces=[])
            for k, val in prop_kwargs(prop).items():
                try:
                    svc.set_property(k, val)
                except Exception:
                    pass
        try:
            d.add_network_service(name='decoy-v', nstype=ServiceType.L2Bridge, interfaces=[p for p, _, _ in ports])
            d.validate()
        except Exception:
            pass
        r = eval_service(case)
        r['v'] = [('after-setters/' + fp, msg + ' [after another slice used every service setter]') for fp, msg in r['v']]
        return r
    return _in_child(body)


def eval_node(case):
    ntype, toggle = case
    v = []
    world.reset_all()
    t = ExperimentTopology()
    kw = {}
    if toggle == 'image':
        kw = dict(image_ref='img', image_type='qcow2')
    if toggle == 'management_ip':
        kw = dict(management_ip='10.0.0.1')
    if toggle == 'no-site/builder':
        # the same node kinds as their builder calls make them (a switch with its own service and ports, a facility with its
        # service and port), then the site taken away
        n = t.add_switch(name='nx', site='S1') if ntype == 'Switch' else t.add_facility(name='nx', site='S1')
        toggle = 'no-site'
    else:
        n = t.add_node(name='nx', site='S1', ntype=NodeType[ntype], **kw)
    if toggle == 'no-site':
        n.unset_property('site')
    if toggle == 'component':
        n.add_component(name='gpu', model_type=ComponentModelType.GPU_RTX6000)
    req, forb = PINNED_NODES[ntype]
    present = {'image': {'image_ref', 'image_type'}, 'management_ip': {'management_ip'}, 'component': {'attached_components_info'},
               'no-site': set(), None: set()}[toggle]
    has_site = toggle != 'no-site'
    want = 'accept'
    if ('site' in req and not has_site) or (present & set(forb)):
        want = 'reject'
    try:
        t.validate()
        got = 'accept'
    except Exception as e:
        got = 'reject'
    if got != want:
        v.append((f'validate-node/{"accepts-invalid" if got == "accept" else "rejects-valid"}/{ntype}/{case[1]}',
                  f'{ntype} node with {toggle}: validate() {got}s, the node table says {want}'))
    return {'v': v, 'nt': tuple(case), 'out': f'node:{want}'}


def eval_meta(case):
    return {'v': table_drift(), 'nt': ('tables',), 'out': 'tables'}


def eval_mirror(case):
    """port mirror through its dedicated call, with the mirrored port inside / outside the slice"""
    to_kind, direction = case
    v = []
    world.reset_all()
    t = ExperimentTopology()
    ports = build_ports(t, 2, 'one-site', 'dedicated' if to_kind == 'dedicated' else 'shared')
    try:
        t.add_port_mirror_service(name='pm', from_interface_name='some-port', to_interface=ports[0][0],
                                  direction=MirrorDirection[direction])
        t.validate()
        if t.network_services['pm'].site != 'S1':
            v.append(('validate/site-not-recorded', f'port mirror site {t.network_services["pm"].site!r}'))
    except Exception as e:
        v.append((f'validate/rejects-valid/port-mirror/{to_kind}', f'{type(e).__name__}: {e}'))
    return {'v': v, 'nt': tuple(case), 'out': 'mirror'}


def eval_moved(case):
    """history: a service with a DECLARED site is validated, emptied, re-connected somewhere (else) and validated again - the
    declaration still counts the second time"""
    stype, n_if, new_site = case
    v = []
    world.reset_all()
    t = ExperimentTopology()

    def mk(tag, site, k):
        n = t.add_node(name=f'{tag}{k}', site=site)
        c = n.add_component(name='nic', model_type=ComponentModelType.SmartNIC_ConnectX_6)
        return ([i for i in c.interface_list if i.name.endswith('p1')][0], 'DedicatedPort', site)
    first = [mk('a', 'S1', k) for k in range(n_if)]
    second = [mk('b', new_site, k) for k in range(n_if)]
    ctx = f'[{stype} x{n_if}: declared S1, connected at S1, validated, emptied, connected at {new_site}]'
    if predict(stype, first, 'S1', None)[0] != 'accept':
        return {'v': v, 'nt': None, 'out': 'first-not-valid'}
    try:
        s = t.add_network_service(name='svc', nstype=ServiceType[stype], interfaces=[p for p, _, _ in first], site='S1')
        t.validate()
    except Exception as e:
        v.append((f'moved/first-validation-rejects/{stype}', f'{type(e).__name__}: {e} {ctx}'))
        return {'v': v, 'nt': tuple(case), 'out': 'bad'}
    try:
        s = t.network_services['svc']
        for p, _, _ in first:
            s.disconnect_interface(p)
        for p, _, _ in second:
            t.network_services['svc'].connect_interface(p)
    except Exception as e:
        v.append((f'moved/reconnect-raises/{stype}', f'{type(e).__name__}: {e} {ctx}'))
        return {'v': v, 'nt': tuple(case), 'out': 'bad'}
    exp = predict(stype, second, 'S1', None)
    try:
        t.validate()
        got = 'accept'
        why = ''
    except Exception as e:
        got = 'reject'
        why = f'{type(e).__name__}: {str(e)[:120]}'
    if exp[0] != 'unspecified' and got != exp[0]:
        clause = exp[1].replace(' ', '-') if exp[0] == 'reject' else 'valid'
        v.append((f'moved/{"accepts-invalid" if got == "accept" else "rejects-valid"}/{clause}',
                  f'second validate() {got}s ({why}) but the tables say {exp} {ctx}'))
    return {'v': v, 'nt': tuple(case), 'out': f'moved:{exp[0]}'}


def eval_grown(case):
    """history: the service is created (handle h kept), listed and validated once, then CHANGED THROUGH h (more interfaces
    connected, some taken away again) and validated again - the verdict is the one the tables give for what the model holds now;
    'relocated' keeps the service as it is and moves its nodes to another site after the first validation (no site declared)"""
    stype, n_first, n_more, more_site, change = case
    v = []
    world.reset_all()
    t = ExperimentTopology()
    nodes = []

    def mk(tag, site, k):
        n = t.add_node(name=f'{tag}{k}', site=site)
        nodes.append(n)
        c = n.add_component(name='nic', model_type=ComponentModelType.SmartNIC_ConnectX_6)
        return ([i for i in c.interface_list if i.name.endswith('p1')][0], 'DedicatedPort', site)
    first = [mk('a', 'S1', k) for k in range(n_first)]
    more = [mk('b', more_site, k) for k in range(n_more)]
    ctx = f'[{stype}: {n_first} ports at S1, listed+validated, then {change} {n_more} at {more_site} through the handle add_network_service returned]'
    try:
        h = t.add_network_service(name='svc', nstype=ServiceType[stype], interfaces=[p for p, _, _ in first])
    except Exception as e:
        return {'v': v, 'nt': None, 'out': 'not-constructible'}
    # first look at the service: listing, printing, validating (whatever the verdict)
    _ = [str(x) for x in t.network_services.values()]
    _ = [x.interface_list for x in t.network_services.values()]
    try:
        t.validate()
        first_verdict = 'accept'
    except Exception:
        first_verdict = 'reject'
    now = list(first)
    try:
        if change == 'grow':
            for pr in more:
                h.connect_interface(pr[0])
                now.append(pr)
        elif change == 'grow-shrink':
            for pr in more:
                h.connect_interface(pr[0])
                now.append(pr)
            h.disconnect_interface(now[0][0])
            now = now[1:]
        elif change == 'swap':
            for pr in first:
                h.disconnect_interface(pr[0])
            now = []
            for pr in more:
                h.connect_interface(pr[0])
                now.append(pr)
        elif change == 'subs-come-and-go':
            # sub-interfaces of the other ports are connected and then taken away where they were made (the parent port)
            for j, pr in enumerate(more):
                sub = pr[0].add_child_interface(name=f'sub{j}', labels=Labels(vlan=str(100 + j)))
                h.connect_interface(sub)
            for j, pr in enumerate(more):
                pr[0].remove_child_interface(name=f'sub{j}')
        elif change == 'relocated':
            for n in nodes:
                n.site = more_site
            now = [(p_, k_, more_site) for p_, k_, _ in first]
    except Exception as e:
        v.append((f'grown/change-raises/{stype}/{change}', f'{type(e).__name__}: {e} {ctx}'))
        return {'v': v, 'nt': tuple(case), 'out': 'bad'}
    exp = predict(stype, now, None, None)
    try:
        t.validate()
        got, why = 'accept', ''
    except Exception as e:
        got, why = 'reject', f'{type(e).__name__}: {str(e)[:140]}'
    if exp[0] != 'unspecified' and got != exp[0]:
        clause = exp[1].replace(' ', '-') if exp[0] == 'reject' else 'valid'
        # no site was ever declared here: a complaint about a 'specified' site can only be about the one the first,
        # successful validation recorded itself
        recorded = first_verdict == 'accept' and got == 'reject' and ('originally specified site' in why or 'was specified in constructor' in why)
        kind = 'recorded-site-taken-as-declared' if recorded else clause
        v.append((f'grown/{"accepts-invalid" if got == "accept" else "rejects-valid"}/{kind}/{change}',
                  f'validate() after the change {got}s ({why}) but the tables say {exp} for the {len(now)} interfaces now connected '
                  f'(first validation: {first_verdict}) {ctx}'))
    return {'v': v, 'nt': tuple(case), 'out': f'grown:{first_verdict}->{exp[0]}'}


def eval_peered(case):
    """two services of one type, one dedicated port each, peered with each other: validation judges each by the tables (the
    peering port is not an interface of a node and adds no site)"""
    stype, site_b = case
    v = []
    world.reset_all()
    t = ExperimentTopology()
    ports = []
    for tag, site in (('aa', 'S1'), ('bb', site_b)):
        c = t.add_node(name=tag, site=site).add_component(name='nic', model_type=ComponentModelType.SmartNIC_ConnectX_6)
        ports.append(([i for i in c.interface_list if i.name.endswith('p1')][0], 'DedicatedPort', site))
    ctx = f'[two {stype} services at S1 and {site_b}, peered]'
    try:
        sa = t.add_network_service(name='sa', nstype=ServiceType[stype], interfaces=[ports[0][0]])
        sb = t.add_network_service(name='sb', nstype=ServiceType[stype], interfaces=[ports[1][0]])
        sa.peer(sb)
    except Exception as e:
        return {'v': v, 'nt': None, 'out': 'not-peerable'}
    # whether the peering port counts towards the interface limits is not specified: decided only where it makes no difference
    exp = [predict(stype, [pr], None, None) for pr in ports] + [predict(stype, [pr, pr], None, None) for pr in ports]
    want = 'accept' if all(e[0] == 'accept' for e in exp) else 'reject' if all(e[0] == 'reject' for e in exp[:2]) and \
        all(e[0] == 'reject' for e in exp[2:]) else 'unspecified'
    try:
        t.validate()
        got, why = 'accept', ''
    except Exception as e:
        got, why = 'reject', f'{type(e).__name__}: {str(e)[:140]}'
    if want != 'unspecified' and got != want:
        v.append((f'peered/{"accepts-invalid" if got == "accept" else "rejects-valid"}/{stype}',
                  f'validate() {got}s ({why}) but each service alone gives {exp} {ctx}'))
    return {'v': v, 'nt': tuple(case), 'out': f'peered:{want}'}


def grown_cases(tier):
    out = []
    for st in PINNED:
        for change in ('grow', 'grow-shrink', 'swap', 'relocated', 'subs-come-and-go'):
            for n_first in (0, 1, 2):
                for n_more in ((0,) if change == 'relocated' else (1, 2)):
                    for site in ('S1', 'S2'):
                        if change == 'relocated' and (site == 'S1' or n_first == 0):
                            continue
                        if change == 'swap' and n_first == 0:
                            continue
                        out.append((st, n_first, n_more, site, change))
    return out


def eval_same_named_ports(case):
    """two connected interfaces whose derived service-port names coincide (legal names): every one of them counts"""
    stype, pattern = case
    v = []
    world.reset_all()
    t = ExperimentTopology()
    ports = []
    if pattern == 'two-nodes-two-sites':
        # 'n1' + 'a-nic-p1' and 'n1-a' + 'nic-p1' both derive 'n1-a-nic-p1'
        c1 = t.add_node(name='n1', site='S1').add_component(name='a-nic', model_type=ComponentModelType.SmartNIC_ConnectX_6)
        c2 = t.add_node(name='n1-a', site='S2').add_component(name='nic', model_type=ComponentModelType.SmartNIC_ConnectX_6)
        ports = [([i for i in c1.interface_list if i.name.endswith('p1')][0], 'DedicatedPort', 'S1'),
                 ([i for i in c2.interface_list if i.name.endswith('p1')][0], 'DedicatedPort', 'S2')]
    else:
        # sub-interfaces called 'sub1' on two (three) dedicated ports of one node all derive 'n1-sub1'
        n = t.add_node(name='n1', site='S1')
        k = 3 if pattern == 'three-subs-one-node' else 2
        for j in range(k):
            c = n.add_component(name=f'nic{j}', model_type=ComponentModelType.SmartNIC_ConnectX_6)
            p1 = [i for i in c.interface_list if i.name.endswith('p1')][0]
            ports.append((p1.add_child_interface(name='sub1', labels=Labels(vlan=str(10 + j))), 'SubInterface', 'S1'))
    ctx = f'[{stype} over {pattern}]'
    try:
        t.add_network_service(name='svc', nstype=ServiceType[stype], interfaces=[p for p, _, _ in ports])
    except Exception as e:
        return {'v': v, 'nt': None, 'out': 'refused-at-once'}
    exp = predict(stype, ports, None, None)
    try:
        t.validate()
        got = 'accept'
        why = ''
    except Exception as e:
        got = 'reject'
        why = f'{type(e).__name__}: {str(e)[:120]}'
    if exp[0] != 'unspecified' and got != exp[0]:
        clause = exp[1].replace(' ', '-') if exp[0] == 'reject' else 'valid'
        v.append((f'same-named-ports/{"accepts-invalid" if got == "accept" else "rejects-valid"}/{clause}',
                  f'validate() {got}s ({why}) but the tables say {exp} {ctx}'))
    elif got == 'accept' and PINNED[stype][2] and t.network_services['svc'].site != exp[1]:
        v.append(('same-named-ports/site-not-recorded', f'recorded site {t.network_services["svc"].site!r}, expected {exp[1]!r} {ctx}'))
    return {'v': v, 'nt': tuple(case), 'out': f'same-named:{exp[0]}'}


REPLAY = {'after-setters': eval_after_setters, 'services': eval_service, 'same-named-ports': eval_same_named_ports, 'nodes': eval_node, 'tables': eval_meta, 'mirror': eval_mirror, 'moved': eval_moved, 'grown': eval_grown, 'peered': eval_peered}


def service_cases(tier):
    cases = []
    for stype in PINNED:
        for n_if in range(0, 5):
            for placement in PLACEMENTS:
                if placement == 'two-sites' and n_if < 2 or placement == 'three-sites' and n_if < 3:
                    continue
                for kinds in KIND_PATTERNS:
                    if n_if == 0 and kinds != 'dedicated':
                        continue
                    if kinds in ('mixed', 'trunk-mixed') and n_if < 2:
                        continue
                    for declared in (None, 'match', 'other'):
                        for prop in PROPS:
                            if tier == 'quick' and prop is not None and declared is not None:
                                continue       # quick: toggle declared site and properties one at a time
                            for mode in ('ctor', 'connect'):
                                if tier == 'quick' and n_if >= 4 and (prop is not None or declared is not None):
                                    continue       # quick: property / declared-site toggles on services with <= 3 interfaces
                                if tier == 'quick' and kinds in ('trunk', 'trunk-mixed') and stype not in ('L2PTP', 'L2STS', 'L2Bridge', 'PortMirror'):
                                    continue
                                if tier == 'quick':
                                    # quick: connect-afterwards only where it can differ (shared ports involved) or for
                                    # the plain variant; 4 interfaces only for the dedicated / mixed patterns
                                    if mode == 'connect' and not (kinds in ('shared', 'mixed') or (prop is None and declared is None)):
                                        continue
                                    if n_if == 4 and kinds not in ('dedicated', 'mixed', 'trunk-mixed'):
                                        continue
                                cases.append((stype, n_if, placement, kinds, declared, prop, mode))
    return cases


def run(report):
    explore_cases(report, 'tables', eval_meta, [('tables',)], workers=1, rule='library constraint tables vs the pinned copy')
    g = explore_cases(report, 'services', eval_service, service_cases(report.tier), chunk=16,
                      rule='15 service types x 0..4 connected interfaces x site placement (1/2/3 sites) x interface kinds (dedicated, '
                           'shared, facility-first, sub-interface-first, dedicated+shared, trunk, dedicated+trunk) x declared site (unset/matching/other) x constrained '
                           'property (none, each mirror property, controller_url, ero, complete mirror set) x construction mode '
                           '(interfaces in the constructor | connect_interface afterwards); quick toggles declared site and '
                           'properties one at a time, thorough jointly; non-trivial = decided cases')
    for o in ('accept', 'reject', 'refused-at-once'):
        report.require(g['outcomes'].get(o, 0) > 0, f'service outcome {o}')
    explore_cases(report, 'after-setters', eval_after_setters,
                  [(st, n, 'one-site', 'dedicated', None, prop, 'ctor') for st in PINNED for n in (1, 2) for prop in PROPS], chunk=4,
                  rule='15 service types x 1..2 interfaces x every constrained property, each judged in a forked process in which '
                       'another slice had every constrained service property written through the setters (and was validated) before')
    gm = explore_cases(report, 'moved', eval_moved, [(st, n, site) for st in PINNED for n in (1, 2) for site in ('S1', 'S2')], chunk=4,
                       rule='every service type x 1..2 dedicated ports: declared site S1, connected at S1, validated, every interface '
                            'disconnected, the same number connected at S1 / S2, validated again against the tables')
    report.require(gm['outcomes'].get('moved:reject', 0) > 0 and gm['outcomes'].get('moved:accept', 0) > 0, 'moved services accepted and rejected')
    gg = explore_cases(report, 'grown', eval_grown, grown_cases(report.tier), chunk=4,
                       rule='every service type x 0..2 dedicated ports at S1: created (handle kept), listed, printed and validated '
                            'once, then changed through the kept handle (1..2 more ports at S1 / S2 connected | connected and the '
                            'first one taken away | all swapped | the nodes moved to S2 with the service untouched), validated again '
                            'against the tables for what is connected now')
    report.require(any(k.endswith('->reject') for k in gg['outcomes']) and any(k.endswith('->accept') for k in gg['outcomes']),
                   'changed services accepted and rejected')
    explore_cases(report, 'peered', eval_peered, [(st, sb) for st in PINNED for sb in ('S1', 'S2')], chunk=2,
                  rule='every service type x (same site | two sites): two one-port services peered with each other, validated')
    explore_cases(report, 'same-named-ports', eval_same_named_ports,
                  [(st, pat) for st in PINNED for pat in ('two-nodes-two-sites', 'two-subs-one-node', 'three-subs-one-node')], chunk=4,
                  rule='every service type over interfaces whose derived service-port names coincide (two nodes on two sites; two '
                       'or three sub-interfaces of one node): counts, sites and kinds are judged over ALL connected interfaces')
    nodes = [(nt, tg) for nt in PINNED_NODES for tg in (None, 'no-site', 'image', 'management_ip', 'component')]
    nodes += [(nt, 'no-site/builder') for nt in ('Switch', 'Facility') if nt in PINNED_NODES]
    explore_cases(report, 'nodes', eval_node, nodes, chunk=2, rule='6 node types x (plain | site unset | image | management ip | a component)')
    explore_cases(report, 'mirror', eval_mirror, [(k, d) for k in ('dedicated', 'shared') for d in ('Both', 'RX_Only', 'TX_Only')], chunk=1,
                  rule='port mirror services built through add_port_mirror_service')
    report.assumptions += ['for service types without a site limit (L2Multisite, L3VPN) agreement between a declared site and the '
                           'connected nodes is not derivable from the table and is left unspecified',
                           'num_instances is NO_LIMIT for every type in the pinned table, so the per-site instance rule has no '
                           'decidable case']
