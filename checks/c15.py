"""C15 - capacity arithmetic and comparison obey their algebraic laws.  Engine E2 (bounded-exhaustive inputs)."""
import itertools

from fim.slivers.capacities_labels import Capacities, FreeCapacity

from fimmc.engine import explore_cases

LEVEL = 'exploration'
FIELDS = ['cpu', 'core', 'ram', 'disk', 'bw', 'burst_size', 'unit', 'mtu']


def mk(vec):
    """a value with these fields; negative fields cannot come from the constructor - they arise as the result of a
    subtraction, so that is how they are made (the caller verifies the fields read back before judging anything)"""
    if all(v >= 0 for v in vec):
        return Capacities(**{f: v for f, v in zip(FIELDS, vec)})
    pos = Capacities(**{f: max(v, 0) for f, v in zip(FIELDS, vec)})
    neg = Capacities(**{f: max(-v, 0) for f, v in zip(FIELDS, vec)})
    return pos - neg


def fd(c):
    """field dictionary read straight from the instance - the oracle never uses the class's operators"""
    return {f: c.__dict__[f] for f in FIELDS}


def vectors_A():
    n = len(FIELDS)
    out = [tuple([0] * n)]
    for i in range(n):
        for v in (1, 7):
            e = [0] * n
            e[i] = v
            out.append(tuple(e))
    out.append(tuple(range(1, n + 1)))
    out.append(tuple(range(n, 0, -1)))
    out.append(tuple([10 ** 12] * n))
    for i in range(n):
        for j in range(n):
            if i != j:
                e = [0] * n
                e[i] = 1
                e[j] = 2
                out.append(tuple(e))
    # values that are themselves results of an over-subtraction (negative fields)
    out.append(tuple([-1] * n))
    for i in range(n):
        e = [0] * n
        e[i] = -3
        out.append(tuple(e))
        e = [0] * n
        e[i] = -1
        e[(i + 1) % n] = 2
        out.append(tuple(e))
    return out


def _eval_pair(case):
    a_v, b_v = tuple(case[0]), tuple(case[1])
    v = []

    def bad(law, field, msg):
        v.append((f'{law}/{field}', f'{msg}: a={dict(zip(FIELDS, a_v))} b={dict(zip(FIELDS, b_v))}'))

    a, b = mk(a_v), mk(b_v)
    # the field set is the wire schema - a changed field set is reported, not silently skipped
    if sorted(a.__dict__.keys()) != sorted(FIELDS):
        return {'v': [('schema/fields', f'Capacities fields are {sorted(a.__dict__)} expected {sorted(FIELDS)}')],
                'nt': None, 'out': 'schema'}
    A, B = dict(zip(FIELDS, a_v)), dict(zip(FIELDS, b_v))
    if fd(a) != A or fd(b) != B:
        return {'v': [('sub-fieldwise/construction', f'a value with fields {A if fd(a) != A else B} could not be produced by subtraction: got {fd(a) if fd(a) != A else fd(b)}')],
                'nt': None, 'out': 'construction'}
    try:
        s = a + b
        s2 = b + a
        d = a - b
        back = (a + b) - b
        free = FreeCapacity(total=a, allocated=b)
        free_none = FreeCapacity(total=a, allocated=None)
        refit = free.free + b
        dd = d + d                      # operands and result may carry negative fields
        zero = d + (b - a)
        sd = a - (b - a)                # ... on the right of a subtraction too
        negneg = (a - a) - ((a - a) - b)
        free_neg = FreeCapacity(total=a, allocated=(b - a))
    except Exception as e:
        return {'v': [(f'raises/arith/{type(e).__name__}', f'arithmetic raised {e!r} for a={A} b={B}')],
                'nt': (a_v, b_v), 'out': 'raise'}
    for f in FIELDS:
        if fd(s)[f] != A[f] + B[f]:
            bad('add-fieldwise', f, f'(a+b).{f}={fd(s)[f]} expected {A[f] + B[f]}')
        if fd(s2)[f] != fd(s)[f]:
            bad('add-commutes', f, f'(a+b).{f}={fd(s)[f]} but (b+a).{f}={fd(s2)[f]}')
        if fd(d)[f] != A[f] - B[f]:
            bad('sub-fieldwise', f, f'(a-b).{f}={fd(d)[f]} expected {A[f] - B[f]}')
        if fd(back)[f] != A[f]:
            bad('add-sub-inverse', f, f'((a+b)-b).{f}={fd(back)[f]} expected {A[f]}')
        if fd(dd)[f] != 2 * (A[f] - B[f]):
            bad('add-fieldwise-negative-operands', f, f'((a-b)+(a-b)).{f}={fd(dd)[f]} expected {2 * (A[f] - B[f])}')
        if fd(zero)[f] != 0:
            bad('add-fieldwise-negative-operands', f, f'((a-b)+(b-a)).{f}={fd(zero)[f]} expected 0')
        if fd(sd)[f] != 2 * A[f] - B[f]:
            bad('sub-fieldwise-negative-operands', f, f'(a-(b-a)).{f}={fd(sd)[f]} expected {2 * A[f] - B[f]}')
        if fd(negneg)[f] != B[f]:
            bad('sub-fieldwise-negative-operands', f, f'(0-(0-b)).{f}={fd(negneg)[f]} expected {B[f]}')
        if getattr(free_neg, f) != 2 * A[f] - B[f]:
            bad('free-is-total-minus-allocated', f, f'free(total=a, allocated=b-a).{f}={getattr(free_neg, f)} expected {2 * A[f] - B[f]}')
        if getattr(free, f) != A[f] - B[f]:
            bad('free-is-total-minus-allocated', f, f'free.{f}={getattr(free, f)} expected {A[f] - B[f]}')
        if fd(refit)[f] != A[f]:
            bad('free-plus-allocated-is-total', f, f'(free+allocated).{f}={fd(refit)[f]} expected {A[f]}')
        if getattr(free_none, f) != A[f]:
            bad('free-allocated-none-is-zero', f, f'free(total=a, allocated=None).{f}={getattr(free_none, f)}')
        if fd(free.total)[f] != A[f]:
            bad('free-total', f, f'free.total.{f}={fd(free.total)[f]}')
    # operands never modified
    for f in FIELDS:
        if fd(a)[f] != A[f] or fd(b)[f] != B[f]:
            bad('operands-unmodified', f, 'operand changed by an operator')
    # ... also when the sum or difference is spelled as an augmented assignment on a second name for an operand
    # (a running total seeded from an existing value): same result, and the value the name came from stays what it was
    acc = a
    acc += b
    run = a
    run -= b
    both = a
    both += b
    both -= b
    for f in FIELDS:
        if fd(acc)[f] != A[f] + B[f] or fd(run)[f] != A[f] - B[f] or fd(both)[f] != A[f]:
            bad('augmented-fieldwise', f, f'acc=a; acc+=b gives {fd(acc)[f]}; run=a; run-=b gives {fd(run)[f]}; +=b then -=b gives {fd(both)[f]}')
        if fd(a)[f] != A[f] or fd(b)[f] != B[f]:
            bad('operands-unmodified/augmented', f, f'x = a; x += b / x -= b changed an operand: a.{f}={fd(a)[f]} b.{f}={fd(b)[f]}')
    # comparisons agree with subtraction; negative fields by name
    neg_ba = sorted(f for f in FIELDS if B[f] - A[f] < 0)
    neg_ab = sorted(f for f in FIELDS if A[f] - B[f] < 0)
    if sorted((b - a).negative_fields()) != neg_ba:
        bad('negative-fields', 'b-a', f'(b-a).negative_fields()={(b - a).negative_fields()} expected {neg_ba}')
    if sorted(d.negative_fields()) != neg_ab:
        bad('negative-fields', 'a-b', f'(a-b).negative_fields()={d.negative_fields()} expected {neg_ab}')
    if (a < b) != (neg_ba == []):
        bad('fits-lt', '-', f'(a<b)={a < b} but b-a negative fields={neg_ba}')
    if (a > b) != (neg_ab == []):
        bad('fits-gt', '-', f'(a>b)={a > b} but a-b negative fields={neg_ab}')
    # equality
    if not (a == a) or not (b == b):
        bad('eq-reflexive', '-', 'x == x is False')
    if (a == b) != (b == a):
        bad('eq-symmetric', '-', f'(a==b)={a == b} (b==a)={b == a}')
    if (a == b) != (A == B):
        bad('eq-iff-fields-equal', '-', f'(a==b)={a == b} but field dicts equal={A == B}')
    # positive_fields
    for f in FIELDS:
        if a.positive_fields(f) != (A[f] > 0):
            bad('positive-fields', f, f'positive_fields({f})={a.positive_fields(f)} for value {A[f]}')
    if a.positive_fields(FIELDS) != all(A[f] > 0 for f in FIELDS):
        bad('positive-fields', 'all', 'positive_fields(list) disagrees')
    # a negative result is representable and printable
    for name, r in (('a-b', d), ('free', free)):
        try:
            str(r)
            if isinstance(r, Capacities):
                r.to_json()
                r.to_dict()
                repr(r)
                js = r.to_json()
                import json as _j
                dec = _j.loads(js) if js else {}
                for f in FIELDS:
                    want = A[f] - B[f]
                    if want != 0 and dec.get(f) != want:
                        bad('negative-representable', f, f'to_json of a-b lacks {f}={want}: {js}')
        except Exception as e:
            bad('negative-printable', name, f'{type(e).__name__}: {e}')
    # ... and printed: every field that is non-zero in the result appears in the text with its value (a negative
    # free capacity in a field the total does not define is exactly what a reader of the printout needs to see)
    for name, r, vals in (('a-b', d, {f: A[f] - B[f] for f in FIELDS}), ('free', free, {f: A[f] - B[f] for f in FIELDS})):
        try:
            text = str(r)
        except Exception:
            continue
        for f in FIELDS:
            if vals[f] != 0:
                shown = f'{f}: {vals[f]:,}'
                if shown + ' ' not in text and shown + '/' not in text and shown + ',' not in text and shown + '}' not in text:
                    bad('negative-printable/field-missing', f'{name}.{f}', f'str() of {name} = {text!r} does not show {f}={vals[f]}')
    nontriv = (a_v, b_v) if (any(a_v) and any(b_v)) else None
    out = ('lt' if neg_ba == [] else '') + ('gt' if neg_ab == [] else '') + ('neg' if neg_ab else '')
    return {'v': v, 'nt': nontriv, 'out': out or 'incomparable'}


def eval_pair(case):
    """any exception out of an operator, comparison or reporting method is a verdict, not a harness failure"""
    try:
        return _eval_pair(case)
    except Exception as e:
        import traceback
        tb = traceback.extract_tb(e.__traceback__)
        where = next((f.name for f in reversed(tb) if 'capacities_labels' in f.filename), '?')
        return {'v': [(f'raises/{where}/{type(e).__name__}', f'{type(e).__name__}: {e} in {where} for a={list(case[0])} b={list(case[1])}')],
                'nt': (tuple(case[0]), tuple(case[1])), 'out': 'raise'}


def eval_triple(case):
    a_v, b_v, c_v = (tuple(x) for x in case)
    a, b, c = mk(a_v), mk(b_v), mk(c_v)
    v = []
    l = fd((a + b) + c)
    r = fd(a + (b + c))
    u = fd(((a + b) + c) - c - b)
    w = fd(a - b - c)
    w2 = fd(a - (b + c))
    for i, f in enumerate(FIELDS):
        if l[f] != r[f] or l[f] != a_v[i] + b_v[i] + c_v[i]:
            v.append((f'add-associative/{f}', f'(a+b)+c={l[f]} a+(b+c)={r[f]} for {case}'))
        if u[f] != a_v[i]:
            v.append((f'add-sub-inverse3/{f}', f'((a+b)+c)-c-b = {u[f]} expected {a_v[i]} for {case}'))
        if w[f] != w2[f] or w[f] != a_v[i] - b_v[i] - c_v[i]:
            v.append((f'sub-sub/{f}', f'a-b-c={w[f]} a-(b+c)={w2[f]} for {case}'))
    return {'v': v, 'nt': tuple(case) if all(any(x) for x in case) else None, 'out': 'ok'}


REPLAY = {'pairs': eval_pair, 'triples': eval_triple}


def run(report):
    A = vectors_A()
    if report.tier == 'quick':
        pairs = [(a, b) for a in A for b in A]
        small = [x for x in A if sum(x) <= 8][:12]
        triples = [(a, b, c) for a in small for b in small for c in small]
        space = f'A x A, |A|={len(A)} structured vectors over 8 fields'
    else:
        cube = list(itertools.product((0, 1, 2), repeat=len(FIELDS)))
        pairs = [(a, b) for a in cube for b in A] + [(b, a) for a in cube[::9] for b in A]
        small = A[:40]
        triples = [(a, b, c) for a in small for b in small for c in small]
        space = f'{{0,1,2}}^8 x A (both orders on a 1/9 slice), |A|={len(A)}'
    g = explore_cases(report, 'pairs', eval_pair, pairs, chunk=256,
                      rule='ordered pairs of capacity vectors; non-trivial = both operands non-zero',
                      space=space)
    explore_cases(report, 'triples', eval_triple, triples, chunk=512,
                  rule='ordered triples of capacity vectors; non-trivial = all three non-zero',
                  space='small^3')
    report.require(len(g['outcomes']) >= 3, 'at least three distinct comparison outcomes among pairs')
    report.assumptions.append('capacity values are ints; negative fields arise only as results of subtraction and are built that way')
