"""C05 - the two in-memory backends agree with each other and with the documented semantics.

Engine E1, lock-step: shared-store backend, per-graph-store backend and the reference model (fimmc/refmodel_graph.py)
are stepped together over all histories of graph operations to a depth bound; after every step raise/return behaviour,
full snapshots and every query answer are compared three ways.
"""
import networkx as nx

from fim.graph.networkx_property_graph import NetworkXPropertyGraph
from fim.graph.networkx_property_graph_disjoint import NetworkXPropertyGraphDisjoint

from fimmc import world
from fimmc.canon import props_canon
from fimmc.engine import Model, bfs, explore_cases
from fimmc.refmodel_graph import RefWorld, IDENT

LEVEL = 'model_checking'
G, H = 'G', 'H'
IDS = ('a', 'b', 'c')
CLASSES = ('NetworkNode', 'Link')
PAIRS = (('a', 'b'), ('a', 'c'), ('b', 'c'))
POLICIES = {'none': None, 'discard': {'P': 'discard'}, 'overwrite': {'P': 'overwrite'}, 'combine': {'P': 'combine'},
            # policies a caller may write but that must not take the node's identity away or leave a half-merged node:
            # the call may be refused (nothing changes) or carried out with the identity kept and P as it was
            'class-combine': {'Class': 'combine'}, 'graphid-overwrite': {'GraphID': 'overwrite'},
            'nodeid-combine': {'NodeID': 'combine'}, 'bogus': {'P': 'bogus'}}
EITHER_POLICIES = ('class-combine', 'graphid-overwrite', 'nodeid-combine', 'bogus')
# property bags that contradict the identity given in the arguments: refused, or added with the identity of the arguments
CONTRARY = {'ic': lambda i: {'Class': 'Link'}, 'ii': lambda i: {'NodeID': 'b' if i == 'a' else 'a'},
            'ig': lambda i: {'GraphID': 'g-h'}}


def store_canon(flavour):
    """whole-store canonical form keyed by (GraphID, NodeID)"""
    nodes, edges = [], []
    if flavour == 'shared':
        graphs = [world.shared_store().graphs]
    else:
        graphs = list(world.disjoint_store().graphs.values())
    for g in graphs:
        key = {n: (d.get('GraphID'), d.get('NodeID')) for n, d in g.nodes(data=True)}
        for n, d in g.nodes(data=True):
            nodes.append((key[n], props_canon(d)))
        for x, y, d in g.edges(data=True):
            edges.append((tuple(sorted((key[x], key[y]), key=repr)), props_canon(d)))
    return tuple(sorted(nodes, key=repr)), tuple(sorted(edges, key=repr))


class LockStep(Model):
    name = 'c05'

    def __init__(self):
        self.ref = RefWorld()
        self.disjoint_live = True

    def graph(self, flavour, gid=G):
        if flavour == 'shared':
            return NetworkXPropertyGraph(graph_id=gid, importer=world.shared_importer())
        return NetworkXPropertyGraphDisjoint(graph_id=gid, importer=world.disjoint_importer())

    def flavours(self):
        return ('shared', 'disjoint') if self.disjoint_live else ('shared',)

    def roots(self):
        return ['empty', 'rich']

    def build_root(self, root):
        world.reset_all()
        self.ref = RefWorld()
        self.disjoint_live = True
        self._root, self._hist = root, []
        if root == 'rich':
            # a second resident graph H with the same NodeIDs (for matching / merging) and a populated G
            for ev in (('add_node', 'a', 'NetworkNode', 'p'), ('add_node', 'b', 'Link', 'p'), ('add_link', 'a', 'b', 'has', 'n')):
                for fl in ('shared', 'disjoint'):
                    self._call(self.graph(fl, H), ev)
                self._model(ev, H)
            for fl in ('shared', 'disjoint'):
                self.graph(fl, H).update_node_property(node_id='a', prop_name='P', prop_val='h')
                self.graph(fl, H).update_node_property(node_id='a', prop_name='OnlyH', prop_val='x')
            self.ref.update_node_property(H, 'a', 'P', 'h')
            self.ref.update_node_property(H, 'a', 'OnlyH', 'x')
            for ev in (('add_node', 'a', 'NetworkNode', 'p'), ('add_node', 'b', 'NetworkNode', 'n'),
                       ('add_link', 'a', 'b', 'connects', 'p')):
                self.apply(ev)
        self._hist = []

    # a state is its history: restoring replays the calls on freshly constructed stores (copying the stores' containers
    # would repair anything that hangs on object identity inside them)
    def snapshot(self):
        return (self._root, tuple(self._hist))

    def restore(self, snap):
        hist = list(snap[1])
        self.build_root(snap[0])
        for ev in hist:
            self.apply(ev)

    def canon(self):
        # equal content with an allocator pointing into the occupied id range has another future: keep such states apart
        st = world.shared_store()
        healthy = [st.start_id > max(st.graphs.nodes, default=0)]
        if self.disjoint_live:
            ds = world.disjoint_store()
            healthy += [dict.get(ds.graph_node_ids, k, 1) > max(g.nodes, default=0) for k, g in sorted(ds.graphs.items())]
        return (self.ref.canon(), self.disjoint_live, all(healthy))

    # ------------------------------------------------------------ alphabet
    def events(self):
        ev = []
        for i in IDS:
            for c in CLASSES:
                ev.append(('add_node', i, c, 'n'))       # props: Name/Type only
                ev.append(('add_node', i, c, 'p'))       # + P
            for tag in CONTRARY:
                ev.append(('add_node', i, 'NetworkNode', tag))
            ev.append(('delete_node', i))
        for a, b in PAIRS:
            if self.ref.edges.get(self.ref.edge_key(G, a, b)) is None:     # no multigraphs: offered for unlinked pairs
                ev.append(('add_link', a, b, 'has', 'n'))
                ev.append(('add_link', a, b, 'connects', 'p'))
                ev.append(('add_link', a, b, 'connects', 'k'))     # a property bag that names another kind for the link
        for i in ('a', 'b'):
            ev += [('upd', i, 'P', '1'), ('upd', i, 'P', '2'), ('upd', i, 'Class', 'Link'), ('upd', i, 'Name', 'm')]
            for p in ('P', 'Q', 'Name', 'Type', 'Class', 'NodeID', 'GraphID'):
                ev.append(('unset', i, p))
            ev.append(('upds', i, 'PQ'))
            ev.append(('upds', i, 'ClassP'))
            ev.append(('upds', i, 'PClass'))          # the refused key comes last: nothing before it may be written
            j = 'b' if i == 'a' else 'a'
            if self.ref.has(G, j):                    # taking the id of another node of the graph
                ev.append(('upd', i, 'NodeID', j))
                ev.append(('upds', i, 'PNodeID-' + j))
        ev += [('upd_all', 'Q', '1'), ('upd_all', 'Class', 'Link')]
        if sum(1 for i in IDS if self.ref.has(G, i)) >= 2:
            ev.append(('upd_all', 'NodeID', 'same'))      # one id for every node of the graph
        for i in ('a', 'b'):
            ev.append(('upd', i, 'GraphID', H))           # re-homing a single node by rewriting its graph id
            ev.append(('upds', i, 'NoneNodeID'))          # blanking an identity property through the bulk setter
            ev.append(('upds', i, 'PNoneName'))
        for kind in ('has', 'connects'):
            ev.append(('upd_link', 'a', 'b', kind, 'LP', '1'))
            ev.append(('unset_link', 'a', 'b', kind, 'LP'))
            ev.append(('upds_link', 'a', 'b', kind, 'LPLQ'))
        ev.append(('upd_link', 'a', 'b', 'has', 'Class', 'connects'))
        ev.append(('upds_link', 'a', 'b', 'has', 'ClassLP'))
        ev.append(('upds_link', 'a', 'b', 'has', 'LPClass'))
        ev.append(('upd_link', 'a', 'c', 'has', 'LP', '1'))
        ev.append(('unset_link', 'b', 'c', 'connects', 'LP'))
        for i in ('a', 'b'):
            if self.ref.has(G, i) and self.ref.has(H, i):
                for pol in POLICIES:
                    # P on the kept node only: every policy keeps it; P on the merged-in node only stays unspecified
                    if pol in ('none', 'class-combine', 'graphid-overwrite', 'nodeid-combine') or 'P' in self.ref.nodes[(G, i)]:
                        ev.append(('merge', i, pol))
        ev.append(('delete_graph',))
        return ev

    @staticmethod
    def _props(tag):
        return {'n': {'Name': 'nm', 'Type': 'T1'}, 'p': {'Name': 'nm', 'Type': 'T1', 'P': '0'},
                'ic': {'Name': 'nm', 'Type': 'T1'}, 'ii': {'Name': 'nm', 'Type': 'T1'}, 'ig': {'Name': 'nm', 'Type': 'T1'}}[tag]

    @staticmethod
    def _multi(tag):
        if tag.startswith('PNodeID-'):
            return {'P': '9', 'NodeID': tag[-1]}
        if tag == 'NoneNodeID':
            return {'NodeID': None}
        if tag == 'PNoneName':
            return {'P': '9', 'Name': None}
        return {'PQ': {'P': '2', 'Q': '1'}, 'ClassP': {'Class': 'Link', 'P': '9'}, 'PClass': {'P': '9', 'Class': 'Link'},
                'LPLQ': {'LP': '2', 'LQ': '1'}, 'ClassLP': {'Class': 'connects', 'LP': '9'},
                'LPClass': {'LP': '9', 'Class': 'connects'}}[tag]

    def _call(self, g, ev):
        k = ev[0]
        if k == 'add_node':
            props = dict(self._props(ev[3]))
            if ev[3] in CONTRARY:
                props.update(CONTRARY[ev[3]](ev[1]))
            return g.add_node(node_id=ev[1], label=ev[2], props=props)
        if k == 'delete_node':
            return g.delete_node(node_id=ev[1])
        if k == 'add_link':
            props = {'p': {'L': '1'}, 'k': {'L': '1', 'Class': 'has'}, 'n': None}[ev[4]]
            return g.add_link(node_a=ev[1], rel=ev[3], node_b=ev[2], props=props)
        if k == 'upd':
            return g.update_node_property(node_id=ev[1], prop_name=ev[2], prop_val=ev[3])
        if k == 'unset':
            return g.unset_node_property(node_id=ev[1], prop_name=ev[2])
        if k == 'upds':
            return g.update_node_properties(node_id=ev[1], props=dict(self._multi(ev[2])))
        if k == 'upd_all':
            return g.update_nodes_property(prop_name=ev[1], prop_val=ev[2])
        if k == 'upd_link':
            return g.update_link_property(node_a=ev[1], node_b=ev[2], kind=ev[3], prop_name=ev[4], prop_val=ev[5])
        if k == 'unset_link':
            return g.unset_link_property(node_a=ev[1], node_b=ev[2], kind=ev[3], prop_name=ev[4])
        if k == 'upds_link':
            return g.update_link_properties(node_a=ev[1], node_b=ev[2], kind=ev[3], props=dict(self._multi(ev[4])))
        if k == 'merge':
            other = type(g)(graph_id=H, importer=g.importer)
            return g.merge_nodes(ev[1], other, POLICIES[ev[2]])
        if k == 'delete_graph':
            return g.delete_graph()
        raise AssertionError(ev)

    def _model(self, ev, gid=G):
        r, k = self.ref, ev[0]
        if k == 'add_node':
            return r.add_node(gid, ev[1], ev[2], self._props(ev[3]))
        if k == 'delete_node':
            return r.delete_node(gid, ev[1])
        if k == 'add_link':
            return r.add_link(gid, ev[1], ev[3], ev[2], {'L': '1'} if ev[4] in ('p', 'k') else None)
        if k == 'upd':
            return r.update_node_property(gid, ev[1], ev[2], ev[3])
        if k == 'unset':
            return r.unset_node_property(gid, ev[1], ev[2])
        if k == 'upds':
            return r.update_node_properties(gid, ev[1], self._multi(ev[2]))
        if k == 'upd_all':
            return r.update_nodes_property(gid, ev[1], ev[2])
        if k == 'upd_link':
            return r.update_link_property(gid, ev[1], ev[2], ev[3], ev[4], ev[5])
        if k == 'unset_link':
            return r.unset_link_property(gid, ev[1], ev[2], ev[3], ev[4])
        if k == 'upds_link':
            return r.update_link_properties(gid, ev[1], ev[2], ev[3], self._multi(ev[4]))
        if k == 'merge':
            return r.merge_nodes(gid, ev[1], H, POLICIES[ev[2]])
        if k == 'delete_graph':
            return r.delete_graph(gid)
        raise AssertionError(ev)

    def apply(self, ev):
        self._hist = getattr(self, '_hist', []) + [ev]
        out = {}
        for fl in self.flavours():
            try:
                out[fl] = ('ok', self._call(self.graph(fl), ev))
            except AssertionError as e:
                out[fl] = ('raise', 'AssertionError')
            except Exception as e:
                out[fl] = ('raise', type(e).__name__)
        first = out[self.flavours()[0]][0]
        if first == 'raise' and ((ev[0] == 'merge' and ev[2] in EITHER_POLICIES) or (ev[0] == 'add_node' and ev[3] in CONTRARY)):
            out['model'] = ('raise',)        # refusing is allowed; the state oracle then demands that nothing changed
        elif ev[0] == 'add_link' and ev[4] == 'k' and first == 'raise':
            out['model'] = ('raise',)        # the kind comes from the argument: a contradicting bag is refused, or overruled
        elif ev[0] in ('upd', 'upds') and 'NodeID' in str(ev[2]):
            out['model'] = ('raise',)        # only offered when the id is taken (or the value is None)
        elif (ev[0] == 'upd' and ev[2] == 'GraphID') or (ev[0] == 'upds' and 'None' in str(ev[2])) or \
                (ev[0] == 'upd_all' and ev[1] == 'NodeID'):
            out['model'] = ('raise',)        # refused, or - for a node that does not exist - failing anyway
        else:
            out['model'] = self._model(ev)
        if ev[0] == 'merge':
            out['disjoint_was_live'] = self.disjoint_live
            self.disjoint_live = False
        return (out['model'][0], out)

    def outcome_label(self, ev, outcome):
        return f'{ev[0]}:{outcome[0]}'

    # ------------------------------------------------------------ oracles
    def check(self, pre, ev, outcome):
        v = []
        out = outcome[1]
        must = out['model'][0]
        k = ev[0]
        for fl in ('shared', 'disjoint'):
            if fl not in out:
                continue
            got = out[fl][0]
            if k == 'merge' and fl == 'disjoint':
                if out[fl] != ('raise', 'RuntimeError'):
                    v.append(('merge/disjoint-must-raise-RuntimeError', f'merge_nodes on the per-graph backend gave {out[fl]} for {ev}'))
                continue
            if must == 'ok' and got != 'ok':
                v.append((f'raises/{k}/{fl}', f'[{fl}] {ev} raised {out[fl][1]} but the documented interface makes it succeed'))
            if must == 'raise' and got != 'raise':
                v.append((f'accepts/{k}/{fl}' + (f'/{ev[2]}' if k in ('unset', 'upd') else ''),
                          f'[{fl}] {ev} succeeded but must be rejected'))
            if must == 'ok' and got == 'ok' and out[fl][1] is not None and k != 'merge':
                v.append((f'returns/{k}/{fl}', f'[{fl}] {ev} returned {out[fl][1]!r}, expected None'))
        if 'shared' in out and 'disjoint' in out and k != 'merge' and out['shared'][0] != out['disjoint'][0]:
            v.append((f'backends-disagree/{k}', f'{ev}: shared {out["shared"]} vs per-graph {out["disjoint"]}'))
        return v

    def invariant(self):
        v = []
        want = self.ref.canon()
        answers = {}
        for fl in self.flavours():
            got = store_canon(fl)
            if got != want:
                v.append((f'state/{fl}', f'[{fl}] store content differs from the reference model: {_diff(want, got)}'))
                continue
            g = self.graph(fl)
            # queries as observations
            qs = []
            for i in IDS:
                qs.append((f'get_node_properties', (i,), lambda i=i: _norm_np(g.get_node_properties(node_id=i)), self.ref.q_node_props(G, i)))
                for c in CLASSES:
                    qs.append(('node_exists', (i, c), lambda i=i, c=c: g.node_exists(node_id=i, label=c), self.ref.q_node_exists(G, i, c)))
            for a, b in PAIRS:
                qs.append(('get_link_properties', (a, b), lambda a=a, b=b: _norm_lp(g.get_link_properties(node_a=a, node_b=b)), self.ref.q_link_props(G, a, b)))
                qs.append(('get_link_properties', (b, a), lambda a=a, b=b: _norm_lp(g.get_link_properties(node_a=b, node_b=a)), self.ref.q_link_props(G, b, a)))
            qs.append(('list_all_node_ids', (), lambda: sorted(g.list_all_node_ids()), self.ref.q_ids(G)))
            for c in CLASSES:
                qs.append(('get_all_nodes_by_class', (c,), lambda c=c: sorted(g.get_all_nodes_by_class(label=c)), self.ref.q_by_class(G, c)))
                qs.append(('get_all_nodes_by_class_and_type', (c, 'T1'), lambda c=c: sorted(g.get_all_nodes_by_class_and_type(label=c, ntype='T1')), self.ref.q_by_class_type(G, c, 'T1')))
                for nm in ('nm', 'm'):
                    qs.append(('check_node_unique', (c, nm), lambda c=c, nm=nm: g.check_node_unique(label=c, name=nm), self.ref.q_unique(G, c, nm)))
            qs.append(('graph_exists', (), lambda: g.graph_exists(), self.ref.q_graph_exists(G)))
            if self.ref.ids(G):
                other = type(g)(graph_id=H, importer=g.importer)
                # (matching against a graph without nodes: the interface does not say - the backends must still agree)
                qs.append(('find_matching_nodes', (), lambda: sorted(g.find_matching_nodes(other_graph=other)),
                           self.ref.q_matching(G, H) if self.ref.ids(H) else ('either',)))
            for name, args, fn, exp in qs:
                try:
                    got_q = ('ok', fn())
                except Exception as e:
                    got_q = ('raise', type(e).__name__)
                answers.setdefault((name, args), {})[fl] = got_q[0] if got_q[0] == 'raise' else got_q
                if exp[0] == 'either':
                    continue
                if exp[0] == 'raise':
                    if got_q[0] != 'raise':
                        v.append((f'query/{name}/{fl}/no-raise', f'[{fl}] {name}{args} returned {got_q[1]!r} but must raise'))
                elif got_q != exp:
                    v.append((f'query/{name}/{fl}', f'[{fl}] {name}{args} gave {got_q!r}, reference model says {exp!r}'))
        # whatever a query does where the interface is silent, both backends do the same
        for (name, args), per in answers.items():
            if len(per) == 2 and per['shared'] != per['disjoint']:
                v.append((f'backends-disagree/query/{name}', f'{name}{args}: shared {per["shared"]!r} vs per-graph {per["disjoint"]!r}'))
        # identity invariants, on the raw stores
        for fl in self.flavours():
            graphs = [world.shared_store().graphs] if fl == 'shared' else list(world.disjoint_store().graphs.values())
            seen = {}
            for g2 in graphs:
                for n, d in g2.nodes(data=True):
                    for p in ('GraphID', 'NodeID', 'Class'):
                        if p not in d:
                            v.append((f'identity/missing-{p}/{fl}', f'[{fl}] stored node {n} lacks {p}: {d}'))
                    key = (d.get('GraphID'), d.get('NodeID'))
                    if not all(isinstance(x, str) for x in key):
                        v.append((f'identity/not-a-string/{fl}', f'[{fl}] stored node {n} has identity {key!r}'))
                        continue
                    if key in seen:
                        v.append((f'identity/duplicate-node-id/{fl}', f'[{fl}] NodeID {key} stored twice (classes {seen[key]}, {d.get("Class")})'))
                    seen[key] = d.get('Class')
        return v

    def prune(self, ev, outcome):
        return False


def _norm_np(r):
    labels, props = r
    return (list(labels), dict(props))


def _norm_lp(r):
    kind, props = r
    return (kind, dict(props))


def _diff(want, got):
    wn, we = want
    gn, ge = got
    out = []
    try:
        for x in set(wn) ^ set(gn):
            out.append(('node', 'model-only' if x in wn else 'impl-only', x[0], dict((a, b[1]) for a, b in x[1])))
        for x in set(we) ^ set(ge):
            out.append(('edge', 'model-only' if x in we else 'impl-only', x[0], dict((a, b[1]) for a, b in x[1])))
    except TypeError:        # an identity property turned into a list: show the two forms as they are
        return [('model', [x for x in list(wn) + list(we) if x not in list(gn) + list(ge)][:3]),
                ('impl', [x for x in list(gn) + list(ge) if x not in list(wn) + list(we)][:3])]
    return out[:6]


MODEL = LockStep()


# ------------------------------------------------------------------------------------------ re-keying a graph as a whole
REKEY_SHAPES = {'1': (('a',), ()), '2': (('a', 'b'), ()), '2e': (('a', 'b'), (('a', 'b'),)), '3e': (('a', 'b', 'c'), (('a', 'b'), ('b', 'c')))}


def _observe(cls, imp, gid):
    g = cls(graph_id=gid, importer=imp)
    if not g.graph_exists():
        return None
    ids = sorted(g.list_all_node_ids())
    nb = {i: sorted(g.get_first_neighbor(node_id=i, rel='has', node_label='NetworkNode')) for i in ids}
    return (ids, nb, sorted((i, g.get_node_properties(node_id=i)[1].get('GraphID')) for i in ids))


def eval_rekey(case):
    """whole-graph update of GraphID (what rollback() of a combined model does with a snapshot): afterwards the content is found
    under the new id and nothing under the old one, on both backends; onto an id in use the per-graph backend may refuse
    (RuntimeError, as for merging) and must then leave both graphs as they were; the graph goes on working under the new id"""
    shape, target_in_use = case[0], case[1]
    handle = case[2] if len(case) > 2 else 'ctor'
    v = []
    seen = {}
    for fl, imp, cls in (('shared', world.shared_importer, NetworkXPropertyGraph), ('disjoint', world.disjoint_importer, NetworkXPropertyGraphDisjoint)):
        world.reset_all()
        imp = imp()
        g = cls(graph_id='G', importer=imp)
        ids, edges = REKEY_SHAPES[shape]
        for i in ids:
            g.add_node(node_id=i, label='NetworkNode', props={'Name': i, 'Type': 'VM'})
        for a, b in edges:
            g.add_link(node_a=a, rel='has', node_b=b)
        if target_in_use:
            k = cls(graph_id='K', importer=imp)
            k.add_node(node_id='z', label='NetworkNode', props={'Name': 'z', 'Type': 'VM'})
        before = (_observe(cls, imp, 'G'), _observe(cls, imp, 'K'))
        if handle == 'cast':
            # the handle the importer itself hands out for a stored graph (what rollback() of a combined model works through)
            g = imp.cast_graph(graph_id='G')
            if type(g) is not cls:
                v.append((f'rekey/cast-handle-of-another-backend/{fl}', f'cast_graph returned a {type(g).__name__}'))
        try:
            g.update_nodes_property(prop_name='GraphID', prop_val='K')
            out = 'ok'
        except Exception as e:
            out = type(e).__name__
        after = (_observe(cls, imp, 'G'), _observe(cls, imp, 'K'))
        if out != 'ok':
            if not (fl == 'disjoint' and target_in_use and out == 'RuntimeError'):
                v.append((f'rekey/raises/{fl}', f'{out} [shape {shape} target in use {target_in_use}]'))
            if after != before:
                v.append((f'rekey/refused-but-changed/{fl}', f'{before} -> {after}'))
            continue
        want_ids = sorted(ids + (('z',) if target_in_use else ()))
        if after[0] is not None or after[1] is None or after[1][0] != want_ids or any(gid != 'K' for _, gid in after[1][2]) or \
                any(sorted(after[1][1][a]) != sorted(y if x == a else x for x, y in edges if a in (x, y)) for a in ids):
            v.append((f'rekey/content-lost/{fl}', f'after re-keying G to K: G={after[0]} K={after[1]} [shape {shape} target in use {target_in_use}]'))
            continue
        # the graph goes on under its new id: a new node gets an internal id of its own
        k = cls(graph_id='K', importer=imp)
        try:
            k.add_node(node_id='n', label='NetworkNode', props={'Name': 'n', 'Type': 'VM'})
            got = sorted(k.list_all_node_ids())
            if got != sorted(want_ids + ['n']):
                v.append((f'rekey/next-node-disturbs/{fl}', f'{got} [shape {shape}]'))
        except Exception as e:
            v.append((f'rekey/next-node-raises/{fl}', f'{type(e).__name__}: {e}'))
        seen[fl] = after
    if len(seen) == 2 and seen['shared'] != seen['disjoint']:
        v.append(('rekey/backends-disagree', f'{seen}'))
    return {'v': v, 'nt': tuple(case), 'out': f'{shape}:{target_in_use}'}


REPLAY = {'lockstep': MODEL, 'rekey': eval_rekey}


def run(report):
    depth = 4 if report.tier == 'quick' else 5
    g = bfs(report, 'lockstep', MODEL, depth=depth, chunk=4,
            rule='histories of property-graph operations on graph G (ids a,b,c; classes NetworkNode/Link; relations has/connects) '
                 'next to a resident graph H with the same ids; state = reference-model canonical state; each transition executes '
                 'the call on both backends and the model and compares results, raises, snapshots and ~40 query answers')
    explore_cases(report, 'rekey', eval_rekey, [(sh, t, h) for sh in REKEY_SHAPES for t in (False, True) for h in ('ctor', 'cast')], chunk=1,
                  rule='whole-graph update of GraphID on 4 graph shapes x target id free / in use x handle (constructed | cast_graph) x both backends: content found under '
                       'the new id only, connections kept, next node allocated safely; the per-graph backend may refuse an id in use')
    for k in ('add_node:ok', 'add_node:raise', 'merge:ok', 'unset:raise', 'unset:ok', 'upd_link:ok', 'upd_link:raise',
              'delete_graph:ok', 'unset:either'):
        report.require(g['outcomes'].get(k, 0) > 0, f'outcome class {k}')
    report.assumptions += [
        'add_link is offered only for pairs without an edge (no multigraphs)',
        'unsetting a property that is not set, and whole-graph update / listing on a graph without nodes: raise-or-noop is '
        'unspecified (state must stay unchanged, which the snapshot comparison enforces)',
        'merge policies are offered only for properties present on both nodes; keys present only on the merged-in node are unspecified',
    ]
