"""C06 - neighbour and path queries return exactly what their contract describes.

Engine E2: every typed graph up to a node bound (node classes x edge relations), resident next to a decoy graph that
reuses the same NodeIDs, on both in-memory store flavours; every query argument combination; oracle computed from the
node/edge lists only.
"""
import itertools

import networkx as nx

from fim.graph.networkx_property_graph import NetworkXPropertyGraph
from fim.graph.networkx_property_graph_disjoint import NetworkXPropertyGraphDisjoint

from fimmc import world
from fimmc.engine import explore_cases

LEVEL = 'exploration'
RELS = ('has', 'connects')
VOCABS = {
    'ns-cp': ('NetworkService', 'ConnectionPoint'),
    'cp-link': ('ConnectionPoint', 'Link'),
    'node-comp': ('NetworkNode', 'Component'),
    'node-ns-cp': ('NetworkNode', 'NetworkService', 'ConnectionPoint'),
    # two model classes one of whose names is contained in the other's
    'link-clink': ('Link', 'CompositeLink'),
}
IDS = ['a', 'b', 'c', 'd', 'e']


def build_nx(n, classes, edges, gid_salt='', order=None):
    g = nx.Graph()
    for i in (order if order is not None else range(n)):
        g.add_node(f'k{i}{gid_salt}', NodeID=IDS[i], Class=classes[i], Name=f'n{IDS[i]}', Type='t')
    for (i, j), r in edges.items():
        if r:
            g.add_edge(f'k{i}{gid_salt}', f'k{j}{gid_salt}', Class=r)
    return g


DIRECTED_UP_TO = 3
REIMPORT_UP_TO = 3


def directed_graphml(n, classes, edges, gid):
    """the same graph the way a Neo4j/yEd export writes it: directed edges (here: from the higher to the lower node) and the
    graph id on every node - to be imported keeping that id"""
    g = nx.DiGraph()
    for i in range(n):
        g.add_node(f'k{i}', NodeID=IDS[i], Class=classes[i], Name=f'n{IDS[i]}', Type='t', GraphID=gid)
    for (i, j), r in edges.items():
        if r:
            g.add_edge(f'k{max(i, j)}', f'k{min(i, j)}', Class=r)
    return '\n'.join(nx.generate_graphml(g))


def decode(case):
    vocab, n, cls_idx, edge_idx = case
    names = VOCABS[vocab]
    classes = [names[i] for i in cls_idx]
    pairs = list(itertools.combinations(range(n), 2))
    edges = {p: (None, 'has', 'connects')[e] for p, e in zip(pairs, edge_idx)}
    return names, classes, edges


# ------------------------------------------------------------------------------------------ oracle helpers
def adj(n, edges):
    a = {i: {} for i in range(n)}
    for (i, j), r in edges.items():
        if r:
            a[i][j] = r
            a[j][i] = r
    return a


def bfs_dist(a, s, t, rel):
    if s == t:
        return 0
    seen = {s}
    fr = [s]
    d = 0
    while fr:
        d += 1
        nf = []
        for x in fr:
            for y, r in a[x].items():
                if rel is not None and r != rel:
                    continue
                if y not in seen:
                    if y == t:
                        return d
                    seen.add(y)
                    nf.append(y)
        fr = nf
    return None


def simple_paths(a, s, t):
    out = []

    def rec(path):
        x = path[-1]
        if x == t:
            out.append(list(path))
            return
        for y in a[x]:
            if y not in path:
                path.append(y)
                rec(path)
                path.pop()
    rec([s])
    return out


def chordless(a, path):
    pos = {x: i for i, x in enumerate(path)}
    for x in path:
        for y in a[x]:
            if y in pos and abs(pos[x] - pos[y]) != 1:
                return False
    return True


# ------------------------------------------------------------------------------------------ evaluation
def eval_graph(case):
    case = tuple(case)
    names, classes, edges = decode(case)
    n = len(classes)
    a = adj(n, edges)
    idx = {IDS[i]: i for i in range(n)}
    v = []
    tags = set()

    def bad(fp, msg):
        v.append((fp, f'{msg}; graph classes={classes} edges={[(IDS[i], IDS[j], r) for (i, j), r in edges.items() if r]}'))

    # decoy graph: same NodeIDs, complementary edges (every absent pair gets 'has', present pairs nothing), classes rotated
    decoy_edges = {p: ('has' if not r else None) for p, r in edges.items()}
    decoy_classes = classes[1:] + classes[:1]
    graphs = {}
    world.reset_all()
    for flavour, imp, cls in (('shared', world.shared_importer(), NetworkXPropertyGraph),
                              ('disjoint', world.disjoint_importer(), NetworkXPropertyGraphDisjoint)):
        imp.storage.add_graph('DECOY1', build_nx(n, decoy_classes, decoy_edges, 'x'))
        imp.storage.add_graph('G', build_nx(n, classes, edges))
        imp.storage.add_graph('DECOY2', build_nx(n, decoy_classes, decoy_edges, 'y'))
        graphs[flavour] = cls(graph_id='G', importer=imp)
        if n <= DIRECTED_UP_TO:
            # the same graph arriving as a directed GraphML document through the id-keeping import
            graphs[flavour + '/directed-import'] = imp.import_graph_from_string_direct(graph_string=directed_graphml(n, classes, edges, 'GD'))

    def passes():
        for fl_, g_ in graphs.items():
            yield fl_, g_
        if n <= REIMPORT_UP_TO:
            # history: the graph is deleted and imported again under the same id, its nodes in another order (so the store
            # numbers them differently); the handle that answered all queries above is asked again
            for fl_ in ('shared', 'disjoint'):
                old = graphs[fl_]
                text = '\n'.join(nx.generate_graphml(build_nx(n, classes, edges, order=list(range(n))[::-1])))
                old.importer.delete_graph(graph_id='G')
                old.importer.import_graph_from_string(graph_string=text, graph_id='G')
                yield fl_ + '/reimported-old-handle', old
            # history: node a of this graph is merged with node a of another graph of the store whose other nodes are NOT
            # re-homed: the store now holds edges from a into that graph; queries on this graph still answer about this graph
            if n >= 2:
                gsh = graphs['shared']
                try:
                    gsh.merge_nodes(node_id=IDS[0], other_graph=NetworkXPropertyGraph(graph_id='DECOY1', importer=gsh.importer))
                    yield 'shared/after-merge-with-neighbour-graph', gsh
                except Exception as e:
                    bad(f'raises/merge_nodes/{type(e).__name__}', f'merge_nodes raised {type(e).__name__}: {e}')

    for flavour, g in passes():
        def call(q, fn, **kw):
            try:
                return True, fn(**kw)
            except Exception as e:
                bad(f'raises/{q}/{type(e).__name__}', f'[{flavour}] {q}({kw}) raised {type(e).__name__}: {e}')
                return False, None

        # ---- first neighbours
        for s in range(n):
            for rel in RELS:
                for cl in names:
                    ok, res = call('get_first_neighbor', g.get_first_neighbor, node_id=IDS[s], rel=rel, node_label=cl)
                    if not ok:
                        continue
                    want = sorted(IDS[y] for y, r in a[s].items() if r == rel and classes[y] == cl)
                    if sorted(res) != want:
                        kind = 'extra' if set(res) - set(want) else 'missing'
                        bad(f'first-neighbor/{kind}', f'[{flavour}] get_first_neighbor({IDS[s]},{rel},{cl})={sorted(res)} expected {want}')
                    if want:
                        tags.add('fn-nonempty')
        # ---- first and second neighbours
        for s in range(n):
            for r1 in RELS:
                for c1 in names:
                    for r2 in RELS:
                        for c2 in names:
                            ok, res = call('get_first_and_second_neighbor', g.get_first_and_second_neighbor,
                                           node_id=IDS[s], rel1=r1, node1_label=c1, rel2=r2, node2_label=c2)
                            if not ok:
                                continue
                            want = set()
                            for k, rk in a[s].items():
                                if rk == r1 and classes[k] == c1:
                                    for i, ri in a[k].items():
                                        if ri == r2 and classes[i] == c2 and i != s:
                                            want.add((IDS[k], IDS[i]))
                            got = [tuple(x) for x in res]
                            if any(len(x) != 2 for x in got):
                                bad('second-neighbor/shape', f'[{flavour}] result members are not pairs: {res}')
                                continue
                            if any(x[1] == IDS[s] for x in got):
                                bad('second-neighbor/start-returned', f'[{flavour}] start node {IDS[s]} returned as second neighbour: {res}')
                            if set(got) != want:
                                kind = 'missing'
                                extra = set(got) - want
                                if extra:
                                    # classify: is every extra pair explained by "second hop exists but over another relation"?
                                    def wrong_rel2(pair):
                                        k, i = idx.get(pair[0]), idx.get(pair[1])
                                        return (k is not None and i is not None and a[s].get(k) == r1 and classes[k] == c1
                                                and a[k].get(i) not in (None, r2) and classes[i] == c2 and i != s)
                                    kind = 'extra/second-hop-wrong-relation' if all(wrong_rel2(x) for x in extra) \
                                        and not (want - set(got)) else 'extra'
                                bad(f'second-neighbor/{kind}',
                                    f'[{flavour}] get_first_and_second_neighbor({IDS[s]},{r1},{c1},{r2},{c2})={sorted(got)} expected {sorted(want)}')
                            elif len(got) != len(set(got)):
                                bad('second-neighbor/duplicates', f'[{flavour}] duplicates in {res}')
                            if want:
                                tags.add('sn-nonempty')
        # ---- shortest path
        for s in range(n):
            for t in range(n):
                for rel in (None,) + RELS:
                    ok, res = call('get_nodes_on_shortest_path' + ('' if rel is None else '+rel'),
                                   g.get_nodes_on_shortest_path, node_a=IDS[s], node_z=IDS[t], rel=rel)
                    if not ok:
                        continue
                    d = bfs_dist(a, s, t, rel)
                    q = f'[{flavour}] get_nodes_on_shortest_path({IDS[s]},{IDS[t]},rel={rel})={res}'
                    if d is None:
                        if res != []:
                            bad('shortest-path/nonempty-when-unreachable', f'{q} but no such path exists')
                        tags.add('sp-unreachable')
                        continue
                    if not res:
                        bad('shortest-path/empty-when-reachable', f'{q} but distance is {d}')
                        continue
                    if res[0] != IDS[s] or res[-1] != IDS[t] or any(x not in idx for x in res):
                        bad('shortest-path/endpoints', f'{q} does not run from a to z')
                        continue
                    okp = True
                    for x, y in zip(res, res[1:]):
                        r = a[idx[x]].get(idx[y])
                        if r is None or (rel is not None and r != rel):
                            okp = False
                    if not okp:
                        bad('shortest-path/not-a-path' + ('' if rel is None else '-of-rel'), f'{q} uses a missing or wrong-relation edge')
                    elif len(res) != d + 1:
                        bad('shortest-path/not-minimal', f'{q} has {len(res) - 1} edges, minimum is {d}')
                    if rel is not None and d and d >= 1:
                        tags.add('sp-rel-found')
        # ---- path with hops
        for s in range(n):
            for t in range(n):
                if s == t:
                    continue
                others = [x for x in range(n) if x not in (s, t)]
                hop_sets = [()] + [(x,) for x in others] + [p for p in itertools.permutations(others, 2)]
                # hop lists naming the end nodes themselves, and a repeated hop
                hop_sets += [(s,), (t,), (s, t), (t, s)] + [(s, x) for x in others[:1]] + [(x, t) for x in others[:1]] + \
                            [(x, x) for x in others[:1]]
                sp = simple_paths(a, s, t)
                for hops in hop_sets:
                    hop_ids = [IDS[h] for h in hops]
                    ok, res = call('get_nodes_on_path_with_hops', g.get_nodes_on_path_with_hops,
                                   node_a=IDS[s], node_z=IDS[t], hops=hop_ids)
                    if not ok:
                        continue
                    q = f'[{flavour}] get_nodes_on_path_with_hops({IDS[s]},{IDS[t]},{hop_ids})={res}'
                    cand = [p for p in sp if all(h in p for h in hops)]
                    cl = [p for p in cand if chordless(a, p)]
                    if res:
                        pi = [idx.get(x) for x in res]
                        if None in pi or pi not in sp:
                            bad('hops/not-a-simple-path', f'{q} is not a simple a-z path of the graph')
                            continue
                        if not all(h in res for h in hop_ids):
                            bad('hops/hop-missing', f'{q} lacks a requested hop')
                            continue
                        if cl and len(res) > min(len(p) for p in cl):
                            bad('hops/not-shortest', f'{q} but a loop-free path with all hops of length {min(len(p) for p in cl)} exists')
                        tags.add('hops-found')
                    else:
                        if cl:
                            bad('hops/empty-when-exists', f'{q} but loop-free path {[IDS[x] for x in cl[0]]} contains all hops')
                        tags.add('hops-empty')
        # ---- derived helpers
        for s in range(n):
            sid = IDS[s]
            cl_s = classes[s]
            # get_parent: exactly-one rule
            for rel in RELS:
                for pc in names:
                    ok, res = call('get_parent', g.get_parent, node_id=sid, rel=rel, parent=pc)
                    if not ok:
                        continue
                    cands = [y for y, r in a[s].items() if r == rel and classes[y] == pc]
                    want = (f'n{IDS[cands[0]]}', IDS[cands[0]]) if len(cands) == 1 else (None, None)
                    if tuple(res) != want:
                        bad('get-parent', f'[{flavour}] get_parent({sid},{rel},{pc})={res} expected {want}')
            if cl_s == 'ConnectionPoint':
                ok, res = call('find_peer_connection_points', g.find_peer_connection_points, node_id=sid)
                if ok:
                    want = set()
                    for k, rk in a[s].items():
                        if rk == 'connects' and classes[k] == 'Link':
                            for i, ri in a[k].items():
                                if ri == 'connects' and classes[i] == 'ConnectionPoint' and i != s:
                                    want.add(IDS[i])
                    got = None if res is None else sorted(set(res))   # multiplicity (two links to one peer) is not specified
                    exp = None if not want else sorted(want)
                    if got != exp:
                        lax = set()   # what the answer would be if the second hop ignored its relation
                        for k, rk in a[s].items():
                            if rk == 'connects' and classes[k] == 'Link':
                                for i, ri in a[k].items():
                                    if classes[i] == 'ConnectionPoint' and i != s:
                                        lax.add(IDS[i])
                        sub = '/via-second-hop-wrong-relation' if set(res or ()) == lax and lax != want else ''
                        bad('peer-connection-points' + sub, f'[{flavour}] find_peer_connection_points({sid})={res} expected {exp}')
                    if want:
                        tags.add('peers-found')
                ok, res = call('get_all_child_connection_points', g.get_all_child_connection_points, interface_id=sid)
                if ok:
                    want = sorted(IDS[y] for y, r in a[s].items() if r == 'connects' and classes[y] == 'ConnectionPoint')
                    if sorted(res) != want:
                        bad('child-connection-points', f'[{flavour}] get_all_child_connection_points({sid})={res} expected {want}')
            if cl_s in ('Link', 'NetworkService'):
                ok, res = call('get_all_ns_or_link_connection_points', g.get_all_ns_or_link_connection_points, link_id=sid)
                if ok:
                    want = sorted(IDS[y] for y, r in a[s].items() if r == 'connects' and classes[y] == 'ConnectionPoint')
                    if sorted(res) != want:
                        bad('ns-or-link-connection-points', f'[{flavour}] get_all_ns_or_link_connection_points({sid})={res} expected {want}')
            if cl_s in ('NetworkNode', 'Component'):
                ok, res = call('get_all_node_or_component_connection_points',
                               g.get_all_node_or_component_connection_points, parent_node_id=sid)
                if ok:
                    want = []
                    for k, rk in a[s].items():
                        if rk == 'has' and classes[k] == 'NetworkService':
                            for i, ri in a[k].items():
                                if ri == 'connects' and classes[i] == 'ConnectionPoint' and i != s:
                                    want.append(IDS[i])
                    if sorted(set(res)) != sorted(set(want)):
                        lax = set()
                        for k, rk in a[s].items():
                            if rk == 'has' and classes[k] == 'NetworkService':
                                for i, ri in a[k].items():
                                    if classes[i] == 'ConnectionPoint' and i != s:
                                        lax.add(IDS[i])
                        sub = '/via-second-hop-wrong-relation' if set(res) == lax and lax != set(want) else ''
                        bad('node-connection-points' + sub, f'[{flavour}] get_all_node_or_component_connection_points({sid})={sorted(res)} expected {sorted(want)}')
                    if want:
                        tags.add('node-cps-found')
    nedges = sum(1 for r in edges.values() if r)
    mixed = len({r for r in edges.values() if r}) > 1
    return {'v': v, 'nt': case if nedges >= 1 else None, 'out': f'n{n}e{nedges}{"m" if mixed else ""}', 'tags': tags}


REPLAY = {'graphs': eval_graph}


def all_graphs(vocab, n, max_edges=None, sorted_classes=False):
    """sorted_classes: keep only non-decreasing class assignments - every typed graph is isomorphic (by renaming
    node ids, which the queries treat as opaque) to one of those"""
    k = len(VOCABS[vocab])
    npairs = n * (n - 1) // 2
    for cls_idx in itertools.product(range(k), repeat=n):
        if sorted_classes and list(cls_idx) != sorted(cls_idx):
            continue
        for edge_idx in itertools.product(range(3), repeat=npairs):
            if max_edges is not None and sum(1 for e in edge_idx if e) > max_edges:
                continue
            yield (vocab, n, cls_idx, edge_idx)


def run(report):
    global DIRECTED_UP_TO
    DIRECTED_UP_TO = 2 if report.tier == "quick" else 5
    global REIMPORT_UP_TO
    REIMPORT_UP_TO = 3 if report.tier == "quick" else 4
    cases = []
    if report.tier == 'quick':
        for vocab in ('ns-cp', 'cp-link', 'node-comp'):
            for n in (1, 2, 3):
                cases += list(all_graphs(vocab, n))
        cases += list(all_graphs('node-ns-cp', 3))
        for n in (2, 3):
            cases += list(all_graphs('link-clink', n))
        # n = 4: one two-class vocabulary, all edge labellings, class assignments up to node renaming (5 x 729)
        cases += list(all_graphs('cp-link', 4, sorted_classes=True))
        space = ('all graphs n<=3 over 3 two-class vocabularies and the three-class vocabulary; n=4 (cp-link): all 729 edge '
                 'labellings x the 5 class assignments that are distinct up to renaming of node ids')
    else:
        for vocab in ('ns-cp', 'cp-link', 'node-comp'):
            for n in (1, 2, 3, 4):
                cases += list(all_graphs(vocab, n))
        cases += list(all_graphs('node-ns-cp', 3))
        cases += list(all_graphs('node-ns-cp', 4, sorted_classes=True))
        # n = 5: class assignments up to renaming of node ids, at most 3 edges (the full n=5 space is ~400k graphs x ~300
        # queries: hours, and was never completed)
        cases += list(all_graphs('cp-link', 5, max_edges=3, sorted_classes=True))
        for n in (2, 3):
            cases += list(all_graphs('link-clink', n))
        space = ('all graphs n<=4 over the two-class vocabularies, n<=3 (all) and n=4 (class assignments up to renaming) over the '
                 'three-class vocabulary; n=5 (cp-link): class assignments up to renaming, <=3 edges; n<=3 over the substring-named pair')
    g = explore_cases(report, 'graphs', eval_graph, cases, chunk=16,
                      rule='typed graphs (class per node, relation per node pair) x every query argument tuple on both '
                           'store flavours next to two decoy graphs with the same NodeIDs; non-trivial = at least one edge',
                      space=space)
    for t in ('fn-nonempty', 'sn-nonempty', 'sp-unreachable', 'sp-rel-found', 'hops-found', 'hops-empty',
              'peers-found', 'node-cps-found'):
        report.require(g['tags'].get(t, 0) > 0, f'query outcome class {t}')
    report.assumptions.append('path-with-hops: a result must be a simple a-z path with all hops, no longer than the shortest '
                              'loop-free (chordless) one, and non-empty when a loop-free one exists; whether a chorded simple '
                              'path alone should qualify is left unspecified')
