"""C07 - every model the topology API builds satisfies the published graph rules (see fimmc/topo.py)."""
from checks._topo_common import make_models, run_topo

LEVEL = 'model_checking'
MODELS = make_models('c07')
REPLAY = MODELS


def run(report):
    q = report.tier == 'quick'
    depths = {('exp', 'empty'): 3 if q else 4, ('exp', 'R1'): 2 if q else 3, ('exp', 'R2'): 2 if q else 2, ('exp', 'R3'): 1,
              ('sub', 'S0'): 3 if q else 5, ('sub', 'S1'): 2 if q else 3, ('sub', 'S2'): 2 if q else 3}
    groups = run_topo(report, MODELS, 'c07', depths)
    outs = {}
    for g in groups.values():
        for k, n in g['outcomes'].items():
            outs[k] = outs.get(k, 0) + n
    for k in ('add_node:ok', 'add_component:ok', 'add_service:ok', 'add_service:raise', 'remove_node:ok', 'connect:ok',
              'add_sub:ok', 'rename:ok', 'add_facility:ok', 'sub_add_link:ok'):
        report.require(outs.get(k, 0) > 0, f'event outcome {k}')
    report.assumptions += ['the two count rules of the rule file (2 ends for L2PTP/L2Path/Patch, 1 for PortMirror) describe finished '
                           'slices and belong to C10', 'remove_link is offered only for links created by add_link; raw '
                           'NetworkService.add_interface(ServicePort) is not a documented building call and not in the alphabet']
