"""C07 - every model the topology API builds satisfies the published graph rules (see fimmc/topo.py)."""
from checks._topo_common import make_models, run_topo

LEVEL = 'model_checking'
MODELS = make_models('c07')
for _m in MODELS.values():
    _m.all_probes = True      # refused calls are calls too: what they leave behind is judged by the same rules
REPLAY = MODELS


def type_cases():
    """every node type x every catalogued component model x every service type x 0..2 interfaces"""
    from fim.user import NodeType, ComponentModelType, ServiceType
    cases = []
    for nt in NodeType:
        for cm in ComponentModelType:
            cases.append(('node+component', nt.name, cm.name))
    for st in ServiceType:
        for cm in ComponentModelType:
            for nif in (0, 1, 2):
                cases.append(('service', st.name, cm.name, nif))
    return cases


def eval_types(case):
    """one or two building calls per case over the FULL type vocabulary; the invariants and views judge every intermediate
    model, and the model after taking the element away again"""
    from fim.user import NodeType, ComponentModelType, ServiceType
    from fimmc import topo
    m = topo.TopoModel('exp', oracles=('c07',))
    m.new_topo()
    t = m.t
    v = []
    steps = []

    def judge(what):
        m._last_ev = (what,)
        for fp, msg in topo._invariant(m):
            v.append((fp, f'[{case}] after {what}: {msg}'))

    def step(what, fn):
        try:
            fn()
            steps.append(what + ':ok')
        except Exception as e:
            steps.append(what + ':raise')
            pre = None
        judge(what)
    kind = case[0]
    if kind == 'node+component':
        nt, cm = NodeType[case[1]], ComponentModelType[case[2]]
        step('add_node', lambda: t.add_node(name='n1', site='S1', ntype=nt))
        if 'n1' in m.all_nodes():
            step('add_component', lambda: m.node('n1').add_component(name='c1', model_type=cm))
            if 'c1' in m.node('n1').components:
                step('remove_component', lambda: m.node('n1').remove_component('c1'))
            step('remove_node', lambda: t.remove_node('n1'))
    else:
        st, cm, nif = ServiceType[case[1]], ComponentModelType[case[2]], case[3]
        ports = []
        for k in range(nif):
            n = t.add_node(name=f'n{k}', site=f'S{k}')
            c = n.add_component(name='c1', model_type=cm)
            ports += list(c.interface_list)[:1]
        if len(ports) < nif:
            return {'v': v, 'nt': None, 'out': 'component-without-ports'}
        judge('add_nodes')
        step('add_service', lambda: t.add_network_service(name='s1', nstype=st, interfaces=ports))
        if 's1' in m.top_services():
            if ports:
                step('disconnect', lambda: m.service('s1').disconnect_interface(m.port('n0', ports[0].name)))
            step('remove_service', lambda: t.remove_network_service('s1'))
    return {'v': v, 'nt': tuple(case), 'out': '+'.join(steps[:2])}


REPLAY['types'] = eval_types


def run(report):
    q = report.tier == 'quick'
    from fimmc.engine import explore_cases
    g0 = explore_cases(report, 'types', eval_types, type_cases(), chunk=8,
                       rule='full type vocabulary at depth 1-2: every NodeType x every catalogued component model (add node, add '
                            'component, remove component, remove node) and every ServiceType x every component model x 0..2 '
                            'connected ports (add service, disconnect one, remove service); invariants and views after every call')
    report.require(any(k.startswith('add_service:ok') for k in g0['outcomes']) and any(k.startswith('add_service:raise') for k in g0['outcomes']),
                   'service types accepted and refused in the type sweep')
    depths = {('exp', 'empty'): 3 if q else 4, ('exp', 'R1'): 2 if q else 3, ('exp', 'R2'): 2 if q else 2, ('exp', 'R3'): 1, ('exp', 'R4'): 1 if q else 2,
              ('sub', 'S0'): 3 if q else 5, ('sub', 'S1'): 2 if q else 3, ('sub', 'S2'): 2 if q else 3}
    groups = run_topo(report, MODELS, 'c07', depths)
    outs = {}
    for g in groups.values():
        for k, n in g['outcomes'].items():
            outs[k] = outs.get(k, 0) + n
    for k in ('add_node:ok', 'add_component:ok', 'add_service:ok', 'add_service:raise', 'remove_node:ok', 'connect:ok',
              'add_sub:ok', 'rename:ok', 'add_facility:ok', 'sub_add_link:ok'):
        report.require(outs.get(k, 0) > 0, f'event outcome {k}')
    report.assumptions += ['the two count rules of the rule file (2 ends for L2PTP/L2Path/Patch, 1 for PortMirror) describe finished '
                           'slices and belong to C10', 'remove_link is offered only for links created by add_link; raw '
                           'NetworkService.add_interface(ServicePort) is not a documented building call and not in the alphabet']
