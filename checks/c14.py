"""C14 - combined broker model: merge is order-independent and unmerge is its inverse.

Engine E1: BFS over merge / unmerge / snapshot / rollback histories on families of generated delegation models that share
stitch nodes. The merge/unmerge code of record (fim/graph/resources/neo4j_cbm.py) is executed through the abstract graph
interface on the in-memory shared store: NxCBM's merge_adm / unmerge_adm / _update_node_delegations ARE the functions of
Neo4jCBMGraph; the only substitution is the ADM class used for its 'crude typecasting' line.
"""
import json

import fim.graph.resources.neo4j_cbm as ncbm
from fim.graph.resources.abc_cbm import ABCCBMPropertyGraph
from fim.graph.resources.networkx_adm import NetworkXADMGraph
from fim.graph.networkx_property_graph import NetworkXPropertyGraph
from fim.user.topology import SubstrateTopology
from fim.slivers.capacities_labels import Labels, Capacities
from fim.slivers.network_service import ServiceType
from fim.slivers.network_node import NodeType
from fim.slivers.network_link import LinkType
from fim.slivers.interface_info import InterfaceType

from fimmc import world
from fimmc.canon import props_canon
from fimmc.engine import Model, bfs
from fimmc.substrate import annotate, entries_of, LAB, CAP, PROP

LEVEL = 'model_checking'
world.install_uuid_seam()
ncbm.Neo4jADMGraph = NetworkXADMGraph          # the "crude typecasting" target, see module docstring


class NxCBM(NetworkXPropertyGraph, ABCCBMPropertyGraph):
    BQM_MERGED_FIELDS = ncbm.Neo4jCBMGraph.BQM_MERGED_FIELDS
    DELEGATION_TYPE_TO_PROP_NAME = ncbm.Neo4jCBMGraph.DELEGATION_TYPE_TO_PROP_NAME
    merge_adm = ncbm.Neo4jCBMGraph.merge_adm
    unmerge_adm = ncbm.Neo4jCBMGraph.unmerge_adm
    _update_node_delegations = ncbm.Neo4jCBMGraph._update_node_delegations

    def __init__(self, graph_id):
        NetworkXPropertyGraph.__init__(self, graph_id=graph_id, importer=world.shared_importer())

    def get_bqm(self, **kw):
        raise NotImplementedError

    def get_delegations(self, **kw):
        raise NotImplementedError

    def get_matching_nodes_with_components(self, **kw):
        raise NotImplementedError

    def get_intersite_links(self):
        raise NotImplementedError

    def get_sites(self):
        raise NotImplementedError

    def get_disconnected_sites(self):
        raise NotImplementedError

    def get_connected_sites(self):
        raise NotImplementedError

    def get_facility_ports(self):
        raise NotImplementedError


# ------------------------------------------------------------------------------------------ model families
def stitch_switch(t, site, uplinks):
    """switch + service + uplink ports, created identically in the site model and in the network models that share them"""
    sw = t.add_node(name=f'{site}-sw', node_id=f'{site}-sw', site=site, ntype=NodeType.Switch, stitch_node=True)
    sf = sw.add_network_service(name=f'{site}-sw-ns', node_id=f'{site}-sw-ns', nstype=ServiceType.MPLS, stitch_node=True)
    ports = {}
    for u in uplinks:
        ports[u] = sf.add_interface(name=f'{site}-up{u}', node_id=f'{site}-up{u}', itype=InterfaceType.TrunkPort,
                                    capacities=Capacities(bw=100), labels=Labels(local_name=f'up{u}'), stitch_node=True)
    return sw, sf, ports


def _isolated_stitch_node(adm, ids=('iso-x',)):
    # a stitching element without any connection inside the model (a shared exchange point nothing is attached to yet);
    # written into the delegation model itself, so that the family does not depend on how the partitioner treats it
    for i in ids:
        adm.add_node(node_id=i, label='NetworkNode', props={'Name': i, 'Type': 'Switch', 'Site': 'X', 'StitchNode': 'true'})


def edge_adm(adm_id):
    """a delegation model that consists of two stitching elements other models know as well, and of the one connection
    between them that only this model knows"""
    g = NetworkXPropertyGraph(graph_id=adm_id, importer=world.shared_importer())
    _isolated_stitch_node(g, ('iso-x', 'iso-y'))
    g.add_link(node_a='iso-x', rel='connects', node_b='iso-y')
    return g


def site_adm(site, adm_id, iso=False):
    t = SubstrateTopology()
    sw, sf, ports = stitch_switch(t, site, (1, 2))
    inner = sf.add_interface(name=f'{site}-sw-p0', node_id=f'{site}-sw-p0', itype=InterfaceType.TrunkPort, capacities=Capacities(bw=100))
    w = t.add_node(name=f'{site}-w0', node_id=f'{site}-w0', site=site, ntype=NodeType.Server, capacities=Capacities(core=32, ram=64))
    wsf = w.add_network_service(name=f'{site}-w0-ns', node_id=f'{site}-w0-ns', nstype=ServiceType.OVS)
    wp = wsf.add_interface(name=f'{site}-w0-p0', node_id=f'{site}-w0-p0', itype=InterfaceType.TrunkPort, capacities=Capacities(bw=25))
    t.add_link(name=f'{site}-l0', node_id=f'{site}-l0', ltype=LinkType.Patch, interfaces=[wp, inner])
    arm = t.as_arm()
    for n in (f'{site}-w0', f'{site}-w0-p0', f'{site}-sw-p0'):
        annotate(arm, n, 'LC@d1')
    adms = arm.generate_adms(delegation_guids={'d1': adm_id})
    arm.delete_graph()
    if iso:
        _isolated_stitch_node(adms['d1'], ('iso-x', 'iso-y') if iso == 'iso2' else ('iso-x',))
    return adms['d1']


def network_adm(name, adm_id, ends, kinds=None, extra=False, iso=False):
    """ends: list of (site, uplink) shared with site models, plus an own exchange switch when ends has one member"""
    t = SubstrateTopology()
    ps = []
    for site, u in ends:
        _, _, ports = stitch_switch(t, site, (1, 2))
        ps.append(ports[u])
    if len(ps) == 1:
        x = t.add_node(name=f'{name}-x', node_id=f'{name}-x', site='X', ntype=NodeType.Switch)
        xs = x.add_network_service(name=f'{name}-x-ns', node_id=f'{name}-x-ns', nstype=ServiceType.MPLS)
        ps.append(xs.add_interface(name=f'{name}-x-p0', node_id=f'{name}-x-p0', itype=InterfaceType.TrunkPort, capacities=Capacities(bw=10)))
    t.add_link(name=f'{name}-link', node_id=f'{name}-link', ltype=LinkType.L2Path, interfaces=ps)
    arm = t.as_arm()
    for i, p in enumerate(ps):
        # which kinds of delegation the (shared) port carries in this model: both, labels only or capacities only
        annotate(arm, p.node_id, (kinds[i] if kinds and i < len(kinds) else 'LC') + '@d1')
    if extra:
        # this model's copy of the first shared port carries a plain property the site model's copy does not have
        arm.update_node_property(node_id=ps[0].node_id, prop_name='Details', prop_val=f'as seen from {name}')
    adms = arm.generate_adms(delegation_guids={'d1': adm_id})
    arm.delete_graph()
    if iso:
        _isolated_stitch_node(adms['d1'])
    return adms['d1']


FAMILIES = {
    # a model all of whose elements the site model has too, and whose only own contribution is a connection between them
    'F2e': [('site', 'A', 'ADM-A', 'iso2'), ('edge', 'D', 'ADM-D')],
    # shared elements whose copies differ in a plain property: the combined element has the properties of the copy that
    # brought it in (the merge code's 'use CBM' rule), whatever is merged onto it later
    # both models contain a stitching element that has no connection at all
    'F2o': [('site', 'A', 'ADM-A', 'iso'), ('net', 'N2', 'ADM-N2', (('A', 2),), None, False, 'iso')],
    'F2x': [('site', 'A', 'ADM-A'), ('net', 'N2', 'ADM-N2', (('A', 2),), None, True)],
    'F3': [('site', 'A', 'ADM-A'), ('site', 'B', 'ADM-B'), ('net', 'N1', 'ADM-N1', (('A', 1), ('B', 1)))],
    'F4': [('site', 'A', 'ADM-A'), ('site', 'B', 'ADM-B'), ('net', 'N1', 'ADM-N1', (('A', 1), ('B', 1))),
           ('net', 'N2', 'ADM-N2', (('B', 2),))],
    'F2': [('site', 'A', 'ADM-A'), ('net', 'N2', 'ADM-N2', (('A', 2),))],
    # the same shapes with shared ports that carry only one kind of delegation in the network model
    'F2c': [('site', 'A', 'ADM-A'), ('net', 'N2', 'ADM-N2', (('A', 2),), ('C', 'L'))],
    'F3m': [('site', 'A', 'ADM-A'), ('site', 'B', 'ADM-B'), ('net', 'N1', 'ADM-N1', (('A', 1), ('B', 1)), ('C', 'L'))],
}
DELEG_PROPS = ('LabelDelegations', 'CapacityDelegations')


def graph_content(gid):
    g = world.shared_store().graphs
    nodes, key = {}, {}
    for n, d in g.nodes(data=True):
        if d.get('GraphID') == gid:
            nodes[d['NodeID']] = dict(d)
            key[n] = d['NodeID']
    edges = {}
    for a, b, d in g.edges(data=True):
        if a in key and b in key:
            edges[frozenset((key[a], key[b]))] = dict(d)
    return nodes, edges


MAX_SNAPSHOTS = 2


class CBMModel(Model):
    def __init__(self, family):
        self.family = family
        self.name = f'c14-{family}'
        self.merged = ()
        self.snap = ()              # outstanding snapshots, oldest first: (snapshot graph id, merged set at that time, creators)

    def roots(self):
        return [self.family]

    def build_root(self, root):
        world.reset_all()
        self.adm_ids = []
        for spec in FAMILIES[self.family]:
            iso = spec[-1] if spec[-1] in ('iso', 'iso2') else False
            if spec[0] == 'edge':
                edge_adm(spec[2])
            elif spec[0] == 'site':
                site_adm(spec[1], spec[2], iso=iso)
            else:
                network_adm(spec[1], spec[2], spec[3], spec[4] if len(spec) > 4 else None, bool(spec[5]) if len(spec) > 5 else False, iso=iso)
            self.adm_ids.append(spec[2])
        self.sources = {a: graph_content(a) for a in self.adm_ids}
        self.merged = ()
        self.snap = ()
        self.creator = {}

    def cbm(self):
        return NxCBM('CBM')

    def snapshot(self):
        return (world.snapshot_shared(), world.UUID_SEAM.counter, self.merged, self.snap, dict(getattr(self, 'creator', {})))

    def restore(self, s):
        world.restore_shared(s[0])
        world.UUID_SEAM.counter = s[1]
        self.merged = s[2]
        self.snap = s[3]
        self.creator = dict(s[4])
        if not hasattr(self, 'sources'):
            self.adm_ids = [spec[2] for spec in FAMILIES[self.family]]
            self.sources = {a: graph_content(a) for a in self.adm_ids}

    def events(self):
        ev = []
        for a in self.adm_ids:
            ev.append(('unmerge', a) if a in self.merged else ('merge', a))
        # up to two snapshots alive at a time (of different contents), rolled back to in either order
        if self.merged and len(self.snap) < MAX_SNAPSHOTS and all(sn[1] != self.merged for sn in self.snap):
            ev.append(('snapshot',))
        for i in range(len(self.snap)):
            ev.append(('rollback', i))
        return ev

    def apply(self, ev):
        k = ev[0]
        try:
            if k == 'merge':
                self.cbm().merge_adm(adm=NetworkXADMGraph(graph_id=ev[1], importer=world.shared_importer()))
                self.merged = tuple(sorted(self.merged + (ev[1],)))
                for nid in self.sources[ev[1]][0]:
                    self.creator.setdefault(nid, ev[1])
            elif k == 'unmerge':
                self.cbm().unmerge_adm(graph_id=ev[1])
                self.merged = tuple(x for x in self.merged if x != ev[1])
                left = set()
                for a in self.merged:
                    left |= set(self.sources[a][0])
                self.creator = {n: c for n, c in self.creator.items() if n in left}
            elif k == 'snapshot':
                sid = self.cbm().snapshot()
                self.snap = self.snap + ((sid, self.merged, dict(self.creator)),)
            elif k == 'rollback':
                i = ev[1] if len(ev) > 1 else 0
                sn = self.snap[i]
                # the snapshot is used up whatever happens; the others stay
                self.snap = self.snap[:i] + self.snap[i + 1:]
                self.cbm().rollback(graph_id=sn[0])
                self.merged = sn[1]
                self.creator = dict(sn[2])
            return ('ok',)
        except Exception as e:
            import traceback
            return ('raise', type(e).__name__, str(e)[:160], traceback.format_exc(limit=4))

    # -------------------------------------------------------------------------------------- reference union
    def expected(self, merged, creator=None):
        nodes, edges = {}, {}
        creator = self.creator if creator is None else creator
        for a in merged:
            an, ae = self.sources[a]
            for nid, d in an.items():
                # the plain properties of an element are those of the copy that brought it in (it may have been unmerged since)
                src = self.sources[creator.get(nid, a)][0].get(nid, d)
                cur = nodes.setdefault(nid, {'props': {k: v for k, v in src.items() if k not in DELEG_PROPS + ('GraphID', 'StructuralInfo')},
                                             'adms': set(), 'deleg': {p: {} for p in DELEG_PROPS}})
                cur['adms'].add(a)
                for p in DELEG_PROPS:
                    txt = d.get(p)
                    if txt and txt != 'None':
                        for _, entry in json.loads(txt).items():
                            cur['deleg'][p][a] = entry       # keyed by the contributing model's id
            for e, d in ae.items():
                edges.setdefault(e, d)
        return nodes, edges

    def _stale_connections_only(self, got_e, want_e, want_n, merged):
        extra = set(got_e) - set(want_e)
        return bool(extra) and not (set(want_e) - set(got_e)) and all(
            set(e) <= set(want_n) and any(e in self.sources[a][1] for a in self.adm_ids if a not in merged) for e in extra)

    def check(self, pre, ev, outcome):
        v = []
        if outcome[0] != 'ok':
            v.append((f'raises/{ev[0]}/{outcome[1]}', f'{ev} with merged={pre["merged"]} raised {outcome[1]}: {outcome[2]} {outcome[3]}'))
            return v
        for a in self.adm_ids:
            if graph_content(a) != self.sources[a]:
                v.append((f'source-model-modified/{ev[0]}', f'{ev}: source model {a} changed'))
        return v

    def observe(self):
        return {'merged': self.merged}

    def invariant(self):
        v = []
        fam = self.family
        got_n, got_e = graph_content('CBM')
        want_n, want_e = self.expected(self.merged)
        ctx = f'[family {fam} merged {self.merged} snapshot {self.snap}]'
        if set(got_n) != set(want_n):
            v.append(('union/nodes', f'extra {sorted(set(got_n) - set(want_n))} missing {sorted(set(want_n) - set(got_n))} {ctx}'))
        for nid in set(got_n) & set(want_n):
            d, w = got_n[nid], want_n[nid]
            si = json.loads(d.get('StructuralInfo') or '{}').get('adm_graph_ids')
            if si is None or sorted(si) != sorted(w['adms']) or len(si) != len(set(si)):
                v.append(('union/contributors', f'{nid}: adm_graph_ids={si}, contributed by {sorted(w["adms"])} {ctx}'))
            for p in DELEG_PROPS:
                txt = d.get(p)
                got = json.loads(txt) if txt and txt != 'None' else {}
                if got != w['deleg'][p]:
                    v.append((f'union/delegations/{p}', f'{nid}: {got} expected {w["deleg"][p]} {ctx}'))
            rest = {k: x for k, x in d.items() if k not in DELEG_PROPS + ('GraphID', 'StructuralInfo')}
            if rest != w['props']:
                diff = sorted(k for k in set(rest) | set(w['props']) if rest.get(k) != w['props'].get(k))
                v.append(('union/other-properties', f'{nid}: differs in {diff} {ctx}'))
        extra_e = set(got_e) - set(want_e)
        if self._stale_connections_only(got_e, want_e, want_n, self.merged):
            # every element of the connection survives, the connection itself came only with models that are not merged (any more)
            v.append(('unmerge/connection-of-the-unmerged-model-between-surviving-elements-stays',
                      f'extra {[sorted(e) for e in extra_e]} {ctx}'))
        elif set(got_e) != set(want_e):
            v.append(('union/edges', f'extra {[sorted(e) for e in set(got_e) - set(want_e)]} missing {[sorted(e) for e in set(want_e) - set(got_e)]} {ctx}'))
        else:
            for e in got_e:
                if got_e[e] != want_e[e]:
                    v.append(('union/edge-properties', f'{sorted(e)} {ctx}'))
        # nothing but the sources, the combined model and an outstanding snapshot lives in the store
        allowed = set(self.adm_ids) | {'CBM'} | {sn[0] for sn in self.snap}
        present = {d.get('GraphID') for _, d in world.shared_store().graphs.nodes(data=True)}
        if present - allowed:
            v.append(('leftover-graphs', f'{sorted(present - allowed)} {ctx}'))
        if len({sn[0] for sn in self.snap}) != len(self.snap):
            v.append(('snapshot-ids-collide', f'two outstanding snapshots carry one graph id {ctx}'))
        for snp in self.snap:
            sn, se = graph_content(snp[0])
            wn, we = self.expected(snp[1], snp[2])
            if set(sn) == set(wn) and self._stale_connections_only(se, we, wn, snp[1]):
                # the snapshot faithfully copied a combined model that already carried the left-over connection
                v.append(('unmerge/connection-of-the-unmerged-model-between-surviving-elements-stays', f'(in the snapshot) {ctx}'))
            elif set(sn) != set(wn) or set(se) != set(we):
                v.append(('snapshot-content', ctx))
        cross = [1 for a, b in world.shared_store().graphs.edges()
                 if world.shared_store().graphs.nodes[a].get('GraphID') != world.shared_store().graphs.nodes[b].get('GraphID')]
        if cross:
            v.append(('cross-graph-edges', f'{len(cross)} edges join different graphs {ctx}'))
        return v

    def canon(self):
        n, e = graph_content('CBM')
        nodes = tuple(sorted((k, props_canon({a: b for a, b in d.items() if not (a in DELEG_PROPS and b in ('', None))})) for k, d in n.items()))
        edges = tuple(sorted((tuple(sorted(k)), props_canon(d)) for k, d in e.items()))
        # the history matters for order-independence: keep the merge ORDER out of the key only if content agrees (it is in `nodes`)
        # the store's allocator is part of the state: equal content with an allocator that points INTO the occupied id range
        # has a different future (the next allocation lands on live nodes) and must not be merged with the healthy state
        st = world.shared_store()
        healthy = st.start_id > max(st.graphs.nodes, default=0)
        return (nodes, edges, self.merged, tuple(sn[1] for sn in self.snap), healthy)


MODELS = {f: CBMModel(f) for f in FAMILIES}


def eval_same_handle(case):
    """history on ONE combined-model handle: every merge / unmerge sequence up to the stated depth is carried out through the
    same object (the BFS above takes a fresh handle for every call); the reference union is compared after every step"""
    fam, seq = case[0], [tuple(e) for e in case[1]]
    m = CBMModel(fam)
    m.build_root(fam)
    handle = m.cbm()
    m.cbm = lambda: handle
    v = []
    for k, ev in enumerate(seq):
        pre = m.observe()
        out = m.apply(ev)
        for fp, msg in list(m.check(pre, ev, out)) + list(m.invariant()):
            v.append((f'same-handle/{fp}', f'{msg} [after {seq[:k + 1]} through one handle]'))
        if v:
            break
    return {'v': v, 'nt': (fam, tuple(seq)), 'out': f'len{len(seq)}'}


def same_handle_cases(depth):
    cases = []
    for fam in ('F2', 'F3'):
        ids = [spec[2] for spec in FAMILIES[fam]]

        def grow(seq, merged):
            if seq:
                cases.append((fam, tuple(seq)))
            if len(seq) == depth:
                return
            for a in ids:
                ev = ('unmerge', a) if a in merged else ('merge', a)
                grow(seq + [ev], merged ^ {a})
        grow([], frozenset())
    return cases


class _R(dict):
    pass


REPLAY = _R(MODELS)
REPLAY['same-handle'] = eval_same_handle


def run(report):
    from fimmc.engine import explore_cases
    d = 5 if report.tier == 'quick' else 6
    explore_cases(report, 'same-handle', eval_same_handle, same_handle_cases(d), chunk=4,
                  rule=f'families F2 and F3: EVERY merge / unmerge sequence up to length {d}, all steps through one combined-model '
                       f'handle, reference union after every step')
    q = report.tier == 'quick'
    for fam, depth in (('F2', 7), ('F2e', 6), ('F2x', 6), ('F2o', 6), ('F2c', 6), ('F3', 6 if q else 8), ('F3m', 6 if q else 8), ('F4', 5 if q else 8)):
        g = bfs(report, fam, MODELS[fam], depth=depth, chunk=2,
                rule=f'family {fam}: merge(X) / unmerge(X) / snapshot / rollback histories to depth {depth}; the combined graph is '
                     f'compared with the reference union of the merged set after every step (so equal sets reached by different '
                     f'orders must give equal graphs), sources must stay unchanged, no temporary graph may survive')
        report.require(g['outcomes'].get('merge:ok', 0) > 0 and g['outcomes'].get('unmerge:ok', 0) > 0, f'{fam}: merges and unmerges')
    report.assumptions += ['the merge/unmerge functions of Neo4jCBMGraph run on the in-memory shared store by composition; the Neo4j/APOC '
                           'mergeNodes semantics are represented by NetworkXPropertyGraph.merge_nodes (checked in C05)',
                           'on shared elements exactly one model carries delegations and non-delegation properties agree '
                           '(otherwise "keep the combined model\'s copy" is order-dependent by design)',
                           'an empty-string delegation property is treated as absent; StructuralInfo is compared as the set of contributors']
