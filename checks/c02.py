"""C02 - sliver <-> graph / dictionary / JSON conversion preserves every settable field.  Engine E2.

Property vocabulary discovered reflectively (K.list_properties()); every single property x every representative value,
every unordered pair of properties, the all-set sliver; all containment shapes up to a size bound; four conversion
paths; set/get/unset on live model elements.
"""
import copy
import itertools
import json
from datetime import datetime, timezone

from fim.slivers.network_node import NodeSliver, NodeType
from fim.slivers.attached_components import ComponentSliver, ComponentType, AttachedComponentsInfo
from fim.slivers.network_service import NetworkServiceSliver, NetworkServiceInfo, ServiceType, NSLayer, MirrorDirection
from fim.slivers.interface_info import InterfaceSliver, InterfaceInfo, InterfaceType
from fim.slivers.network_link import NetworkLinkSliver, LinkType
from fim.slivers.capacities_labels import (Capacities, CapacityHints, Labels, ReservationInfo, StructuralInfo, Location, Flags)
from fim.slivers.delegations import Delegations, Delegation, DelegationType, DelegationFormat
from fim.slivers.tags import Tags
from fim.slivers.json_data import MeasurementData, UserData, LayoutData
from fim.slivers.gateway import Gateway
from fim.slivers.path_info import PathInfo, ERO, Path, PathRepresentationType
from fim.slivers.maintenance_mode import MaintenanceInfo, MaintenanceEntry, MaintenanceState
from fim.slivers.json import JSONSliver
from fim.graph.abc_property_graph import ABCPropertyGraph
from fim.graph.slices.networkx_asm import NetworkxASM
from fim.user.topology import ExperimentTopology
from fim.user.component import ComponentModelType

from fimmc import world
from fimmc.engine import explore_cases

LEVEL = 'exploration'
world.install_uuid_seam()
KINDS = {'node': NodeSliver, 'component': ComponentSliver, 'service': NetworkServiceSliver, 'interface': InterfaceSliver,
         'link': NetworkLinkSliver}
TYPES = {'node': [NodeType.VM, NodeType.Server, NodeType.Switch, NodeType.Facility, NodeType.Container, NodeType.NAS],
         'component': list(ComponentType), 'service': list(ServiceType), 'interface': list(InterfaceType), 'link': list(LinkType)}
STRUCTURAL = {'network_service_info', 'type', 'name'}       # identity / structure, exercised by every case


def _blob_of_length(n):
    """a Python object whose default JSON encoding has exactly n characters"""
    import json as _j
    obj = {'k': ''}
    obj['k'] = 'x' * (n - len(_j.dumps(obj)))
    assert len(_j.dumps(obj)) == n
    return obj


def _deleg(t, pool=False):
    ds = Delegations(atype=t)
    d = Delegation(atype=t, delegation_id='del1', aformat=DelegationFormat.PoolDefinition if pool else DelegationFormat.SinglePool,
                   pool_id='pool1' if pool else None)
    d.set_details(Labels(vlan_range='1-10') if t == DelegationType.LABEL else Capacities(core=4))
    ds.add_delegations(d)
    if pool:
        ds.add_delegations(Delegation(atype=t, delegation_id='del2', aformat=DelegationFormat.PoolReference, pool_id='pool2'))
    return ds


def _deleg_mixed(t, first):
    """several delegations of mixed formats in one container, single-pool entries after pool entries"""
    ds = Delegations(atype=t)
    det = (lambda: Labels(vlan_range='1-10')) if t == DelegationType.LABEL else (lambda: Capacities(core=4))
    if first == 'definition':
        d = Delegation(atype=t, delegation_id='del-a', aformat=DelegationFormat.PoolDefinition, pool_id='cpool1')
        d.set_details(det())
        ds.add_delegations(d)
    else:
        ds.add_delegations(Delegation(atype=t, delegation_id='del-a', aformat=DelegationFormat.PoolReference, pool_id='cpool2'))
    s1 = Delegation(atype=t, delegation_id='del-b', aformat=DelegationFormat.SinglePool)
    s1.set_details(det())
    ds.add_delegations(s1)
    d2 = Delegation(atype=t, delegation_id='del-c', aformat=DelegationFormat.PoolDefinition, pool_id='cpool3')
    d2.set_details(det())
    ds.add_delegations(d2)
    return ds


def _maint(n):
    m = MaintenanceInfo()
    if n == 0:
        return m            # a record without entries, handed over as constructed (not finalized by the caller)
    m.add('w1', MaintenanceEntry(state=MaintenanceState.Maint, deadline=datetime(2024, 1, 1, tzinfo=timezone.utc)))
    if n > 1:
        m.add('w2', MaintenanceEntry(state=MaintenanceState.PreMaint, expected_end=datetime(2024, 5, 5, 1, 2, 3)))
    m.finalize()
    return m


def _path(ptype, ero, strict=False):
    x = ERO(PathRepresentationType[ptype], strict=strict) if ero else PathInfo(PathRepresentationType[ptype])
    if ptype == 'Path':
        p = Path()
        p.set_symmetric(['a', 'b', 'c'])
        x.set(p)
    else:
        x.set('graph-1')
    return x


VOCAB = {
    'model': [lambda: 'ConnectX-6', lambda: 'é "quoted"'],
    'capacities': [lambda: Capacities(core=2, ram=8), lambda: Capacities(bw=100, unit=1, mtu=9000)],
    'capacity_hints': [lambda: CapacityHints(instance_type='fabric.c2.m8.d10')],
    'labels': [lambda: Labels(vlan='100', local_name='p1'), lambda: Labels(bdf=['0000:41:00.0', '0000:41:00.1'], mac='00:11:22:33:44:55')],
    'capacity_delegations': [lambda: _deleg(DelegationType.CAPACITY), lambda: _deleg(DelegationType.CAPACITY, True),
                             lambda: _deleg_mixed(DelegationType.CAPACITY, 'definition'), lambda: _deleg_mixed(DelegationType.CAPACITY, 'reference')],
    'label_delegations': [lambda: _deleg(DelegationType.LABEL), lambda: _deleg(DelegationType.LABEL, True),
                          lambda: _deleg_mixed(DelegationType.LABEL, 'definition'), lambda: _deleg_mixed(DelegationType.LABEL, 'reference')],
    'label_allocations': [lambda: Labels(vlan='5')],
    'capacity_allocations': [lambda: Capacities(core=1)],
    'reservation_info': [lambda: ReservationInfo(reservation_id='r1', reservation_state='Active'), lambda: ReservationInfo(error_message='boom')],
    'structural_info': [lambda: StructuralInfo(adm_graph_ids=['g1', 'g2']), lambda: StructuralInfo(parent_graph_id='pg')],
    'details': [lambda: 'some details', lambda: 'x<&>"y'],
    'node_map': [lambda: ('graph-1', 'node-1')],
    'stitch_node': [lambda: True, lambda: False],
    'tags': [lambda: Tags('a', 'b-c'), lambda: Tags()],
    'flags': [lambda: Flags(auto_config=True), lambda: Flags(ptp=True, ipv4_management=True), lambda: Flags()],
    # (the last value of each blob kind is an object whose encoding is exactly as long as the kind's size limit: what
    # the object form accepts, the text form met on the way back must accept too)
    'mf_data': [lambda: MeasurementData({'k': 1}), lambda: MeasurementData('[1, 2]'), lambda: MeasurementData(_blob_of_length(MeasurementData.MAX_SIZE))],
    'user_data': [lambda: UserData({'u': [1, {'z': None}]}), lambda: UserData('"text"'), lambda: UserData(_blob_of_length(UserData.MAX_SIZE))],
    'layout_data': [lambda: LayoutData({'x': 1.5}), lambda: LayoutData(_blob_of_length(LayoutData.MAX_SIZE))],
    'boot_script': [lambda: '#!/bin/bash\necho "hi"', lambda: ''],
    # node
    'management_ip': [lambda: '10.0.0.1', lambda: '2001:db8::1'],
    'allocation_constraints': [lambda: 'constraint text'],
    'image_type': [lambda: 'qcow2'],
    'image_ref': [lambda: 'default_centos_8', lambda: 'images/centos, stream 8'],
    'service_endpoint': [lambda: 'https://host:8080/path'],
    'site': [lambda: 'RENC', lambda: 'S 1'],
    'location': [lambda: Location(postal='100 Europa Dr'), lambda: Location(lat=0.0, lon=-79.05)],
    'maintenance_info': [lambda: _maint(1), lambda: _maint(2), lambda: _maint(0)],
    # service
    'layer': [lambda: NSLayer.L2, lambda: NSLayer.L3, lambda: NSLayer.L0, lambda: NSLayer.L1],
    'technology': [lambda: 'tech-1'],
    'ero': [lambda: _path('Path', True, False), lambda: _path('Path', True, True), lambda: _path('Graph', True, True)],
    'path_info': [lambda: _path('Path', False), lambda: _path('Graph', False), lambda: PathInfo()],
    'controller_url': [lambda: 'http://controller:6653'],
    'gateway': [lambda: Gateway(Labels(ipv4_subnet='192.168.1.0/24', ipv4='192.168.1.1')),
                lambda: Gateway(Labels(ipv6_subnet='2001:db8::/64', ipv6='2001:db8::1', mac='00:11:22:33:44:55'))],
    'mirror_port': [lambda: 'HundredGigE0/0/0/5'],
    'mirror_vlan': [lambda: '100'],
    'mirror_direction': [lambda: d for d in ()] or [lambda: MirrorDirection.Both, lambda: MirrorDirection.RX_Only, lambda: MirrorDirection.TX_Only],
    # interface
    'peer_labels': [lambda: Labels(ipv4='10.0.0.2', asn='65000')],
}


def canon_field(v):
    """canonical JSON-able form of one sliver field value"""
    if v is None:
        return None
    for attr in ('to_json',):
        if hasattr(v, attr):
            t = v.to_json()
            if not t:                      # an all-empty structured value is the same as absent
                return None
            try:
                return ('json', json.dumps(json.loads(t), sort_keys=True))
            except Exception:
                return ('text', t)
    if hasattr(v, 'data') and hasattr(v, 'json'):
        return ('blob', json.dumps(v.data, sort_keys=True))
    if isinstance(v, (tuple, list)):
        return ('list', [canon_field(x) for x in v])
    if isinstance(v, (str, bool, int, float)):
        return ('v', v)
    return ('str', str(v))


def fields_of(sliver, kind):
    out = {}
    for p in KINDS[kind].list_properties():
        if p in ('network_service_info',):
            continue
        try:
            out[p] = canon_field(sliver.get_property(p))
        except AttributeError:
            out[p] = ('no-getter',)
    return out


def make(kind, name='el-1', typ=None, node_id='id-1', props=()):
    s = KINDS[kind]()
    s.set_name(name)
    s.set_type(typ if typ is not None else TYPES[kind][0])
    s.node_id = node_id
    for p, i in props:
        s.set_property(p, VOCAB[p][i]())
    return s


def tree(s):
    """(kind name, resource name, type, children...) - the shape of a deep sliver"""
    kids = []
    aci = getattr(s, 'attached_components_info', None)
    if aci:
        kids += [tree(c) for c in aci.list_devices()]
    nsi = getattr(s, 'network_service_info', None)
    if nsi:
        kids += [tree(x) for x in nsi.list_services()]
    ii = getattr(s, 'interface_info', None)
    if ii:
        kids += [tree(x) for x in ii.list_interfaces()]
    return (type(s).__name__, s.get_name(), str(s.get_type()), tuple(sorted(kids)))


def deep_fields(s, kind_of):
    """{path: fields} for every element of a deep sliver"""
    out = {}

    def walk(x, path):
        k = {'NodeSliver': 'node', 'ComponentSliver': 'component', 'NetworkServiceSliver': 'service',
             'InterfaceSliver': 'interface', 'NetworkLinkSliver': 'link'}[type(x).__name__]
        out[path + (x.get_name(),)] = (fields_of(x, k), x.node_id)
        for c in (x.attached_components_info.list_devices() if getattr(x, 'attached_components_info', None) else []):
            walk(c, path + (x.get_name(),))
        for c in (x.network_service_info.list_services() if getattr(x, 'network_service_info', None) else []):
            walk(c, path + (x.get_name(),))
        for c in (x.interface_info.list_interfaces() if getattr(x, 'interface_info', None) else []):
            walk(c, path + (x.get_name(),))
    walk(s, ())
    return out


def graph():
    world.reset_all()
    return NetworkxASM(graph_id='G', importer=world.shared_importer())


def roundtrips(kind, s):
    """yields (path name, rebuilt sliver, compares_node_id)"""
    G = ABCPropertyGraph
    d = G.sliver_to_dict(copy.deepcopy(s))
    rebuild = {'node': G.build_deep_node_sliver_from_dict, 'component': G.build_deep_component_sliver_from_dict,
               'service': G.build_deep_ns_sliver_from_dict, 'interface': G.build_deep_interface_sliver_from_dict,
               'link': G.build_deep_link_sliver_from_dict}[kind]
    yield 'dict', (lambda: rebuild(props=json.loads(json.dumps(d)))), False
    if kind == 'node':
        yield 'json', (lambda: JSONSliver.node_sliver_from_json(JSONSliver.sliver_to_json(copy.deepcopy(s)))), False
    if kind == 'service':
        yield 'json', (lambda: JSONSliver.network_service_sliver_from_json(JSONSliver.sliver_to_json(copy.deepcopy(s)))), False

    def via_graph():
        g = graph()
        x = copy.deepcopy(s)
        if kind == 'node':
            g.add_network_node_sliver(sliver=x)
            return g.build_deep_node_sliver(node_id=x.node_id)
        if kind == 'component':
            g.add_network_node_sliver(sliver=make('node', 'host', node_id='id-host'))
            g.add_component_sliver(parent_node_id='id-host', component=x)
            return g.build_deep_component_sliver(node_id=x.node_id)
        if kind == 'service':
            g.add_network_service_sliver(parent_node_id=None, network_service=x)
            return g.build_deep_ns_sliver(node_id=x.node_id)
        if kind == 'interface':
            g.add_network_service_sliver(parent_node_id=None, network_service=make('service', 'host-ns', node_id='id-hostns'))
            g.add_interface_sliver(parent_node_id='id-hostns', interface=x)
            return g.build_deep_interface_sliver(node_id=x.node_id)
        g.add_network_link_sliver(lsliver=x, interfaces=[])
        return g.build_deep_link_sliver(node_id=x.node_id)
    yield 'graph', via_graph, True


def compare(v, kind, what, orig, back, with_id, ctx):
    if tree(orig) != tree(back):
        v.append((f'{what}/structure/{kind}', f'shape differs: {tree(orig)} -> {tree(back)} {ctx}'))
        return
    fo, fb = deep_fields(orig, kind), deep_fields(back, kind)
    for path in fo:
        a, ida = fo[path]
        b, idb = fb[path]
        ek = type_of_path(orig, path)
        for p in a:
            if a[p] != b[p]:
                v.append((f'{what}/field/{ek}/{p}', f'{"/".join(path)}: {p} = {a[p]} came back as {b[p]} {ctx}'))
        if with_id and ida != idb:
            v.append((f'{what}/node_id/{ek}', f'{"/".join(path)}: node_id {ida} came back as {idb} {ctx}'))


def type_of_path(root, path):
    cur = root
    for name in path[1:]:
        nxt = None
        for info, lst in (('attached_components_info', 'list_devices'), ('network_service_info', 'list_services'),
                          ('interface_info', 'list_interfaces')):
            i = getattr(cur, info, None)
            if i:
                for c in getattr(i, lst)():
                    if c.get_name() == name:
                        nxt = c
        cur = nxt
    return {'NodeSliver': 'node', 'ComponentSliver': 'component', 'NetworkServiceSliver': 'service', 'InterfaceSliver': 'interface',
            'NetworkLinkSliver': 'link'}[type(cur).__name__]


def normalise_couplings(kind, props):
    """documented couplings: image_ref is stored only together with image_type"""
    names = {p for p, _ in props}
    props = list(props)
    if kind == 'node' and ('image_ref' in names) != ('image_type' in names):
        props.append(('image_type', 0) if 'image_ref' in names else ('image_ref', 0))
    return tuple(props)


def eval_flat(case):
    kind, props, typ_i = case[0], tuple(tuple(x) for x in case[1]), case[2]
    v = []
    props = normalise_couplings(kind, props)
    ctx = f'[{kind} type {TYPES[kind][typ_i]} props {props}]'
    try:
        s = make(kind, typ=TYPES[kind][typ_i], props=props)
    except Exception as e:
        return {'v': [(f'setter-raises/{kind}', f'{type(e).__name__}: {e} {ctx}')], 'nt': None, 'out': 'raise'}
    try:
        before = deep_fields(s, kind)
    except Exception as e:
        # the setters accepted the values, but what they stored cannot even be read / encoded
        return {'v': [(f'setter-result-unreadable/{kind}/{type(e).__name__}', f'{type(e).__name__}: {e} {ctx}')], 'nt': None, 'out': 'raise'}
    for path, fn, with_id in roundtrips(kind, s):
        try:
            back = fn()
        except Exception as e:
            import traceback
            v.append((f'{path}/raises/{kind}/{type(e).__name__}', f'{type(e).__name__}: {e} {ctx} {traceback.format_exc(limit=2)}'))
            continue
        compare(v, kind, path, s, back, with_id, ctx)
        # the type is a member of THIS class's vocabulary (members of two vocabularies may share a name and a printout)
        if back.get_type() is not TYPES[kind][typ_i]:
            v.append((f'{path}/type-member/{kind}', f'type {TYPES[kind][typ_i]!r} came back as {back.get_type()!r} {ctx}'))
    if s.get_type() is not TYPES[kind][typ_i]:
        v.append((f'setter/type-member/{kind}', f'type {TYPES[kind][typ_i]!r} reads {s.get_type()!r} after set_type {ctx}'))
    if deep_fields(s, kind) != before:
        v.append((f'conversion-mutates-input/{kind}', ctx))
    return {'v': v, 'nt': (kind, props, typ_i), 'out': f'{kind}:{len(props)}'}


def _in_child(fn):
    """fn() in a forked child: class-level state of the library starts as in this process and dies with the child"""
    import os
    import pickle
    r, w = os.pipe()
    pid = os.fork()
    if pid == 0:
        try:
            os.close(r)
            try:
                out = fn()
            except BaseException as e:      # noqa
                out = {'v': [('harness/child-raised', f'{type(e).__name__}: {e}')], 'nt': None, 'out': 'raise'}
            with os.fdopen(w, 'wb') as f:
                pickle.dump(out, f)
        finally:
            os._exit(0)
    os.close(w)
    with os.fdopen(r, 'rb') as f:
        data = f.read()
    os.waitpid(pid, 0)
    return pickle.loads(data) if data else {'v': [('harness/child-died', '')], 'nt': None, 'out': 'raise'}


def eval_after_other(case):
    """history: another sliver class went through the same conversions before, in this process, with the type of the same name
    if its vocabulary has one (else its first type); then the class under test. In a forked child, so that every case starts
    from the same class-level state."""
    k1, k2, ti2 = case
    want = TYPES[k2][ti2]
    ti1 = next((i for i, t in enumerate(TYPES[k1]) if t.name == want.name), 0)

    def body():
        eval_flat((k1, (), ti1))
        r = eval_flat((k2, (), ti2))
        return {'v': [(f'after-{k1}/' + fp, msg + f' [after the same for a {k1} of type {TYPES[k1][ti1]!r}]') for fp, msg in r['v']],
                'nt': tuple(case), 'out': f'{k1}>{k2}:{"same-name" if TYPES[k1][ti1].name == want.name else "other"}'}
    return _in_child(body)


# ------------------------------------------------------------------------------------------ containment shapes
def shape_cases(tier):
    """(ncomp services per comp, node-level services, interfaces per service, sub-interfaces per dedicated port)"""
    mx = 2 if tier == 'quick' else 3
    out = []
    for ncomp in range(0, mx + 1):
        for cns in (0, 1):
            for nns in range(0, mx + 1):
                for nif in range(0, mx + 1):
                    for nsub in range(0, mx + 1):
                        if nif == 0 and nsub > 0:
                            continue
                        if ncomp == 0 and cns == 1:
                            continue
                        out.append((ncomp, cns, nns, nif, nsub))
    return out


def build_shape(shape):
    ncomp, cns, nns, nif, nsub = shape
    cnt = itertools.count()

    def ifs(prefix):
        ii = InterfaceInfo()
        for k in range(nif):
            # the parent of sub-interfaces is a dedicated port of a NIC or - second port - a trunk port (switch, facility side)
            p = make('interface', f'{prefix}-p{k}', InterfaceType.DedicatedPort if k % 2 == 0 else InterfaceType.TrunkPort,
                     f'id-{next(cnt)}', (('labels', k % 2),))
            if nsub:
                si = InterfaceInfo()
                for j in range(nsub):
                    si.add_interface(make('interface', f'{prefix}-p{k}-s{j}', InterfaceType.SubInterface, f'id-{next(cnt)}',
                                          (('labels', 0), ('capacities', 1))))
                p.interface_info = si
            ii.add_interface(p)
        return ii if nif else None
    n = make('node', 'n1', NodeType.VM, f'id-{next(cnt)}', (('site', 0), ('capacities', 0)))
    if ncomp:
        aci = AttachedComponentsInfo()
        for c in range(ncomp):
            cs = make('component', f'c{c}', ComponentType.SmartNIC, f'id-{next(cnt)}', (('model', 0), ('user_data', 0)))
            if cns:
                ns = make('service', f'c{c}-ns', ServiceType.OVS, f'id-{next(cnt)}', (('layer', 0),))
                ns.interface_info = ifs(f'c{c}')
                nsi = NetworkServiceInfo()
                nsi.add_network_service(ns)
                cs.network_service_info = nsi
            aci.add_device(cs)
        n.attached_components_info = aci
    if nns:
        nsi = NetworkServiceInfo()
        for k in range(nns):
            ns = make('service', f'ns{k}', ServiceType.MPLS, f'id-{next(cnt)}', (('labels', 1),))
            ns.interface_info = ifs(f'ns{k}')
            nsi.add_network_service(ns)
        n.network_service_info = nsi
    return n


def eval_shape(case):
    shape = tuple(case)
    v = []
    n = build_shape(shape)
    ctx = f'[shape comps={shape[0]} comp-services={shape[1]} node-services={shape[2]} interfaces={shape[3]} sub-interfaces={shape[4]}]'
    for path, fn, with_id in roundtrips('node', n):
        try:
            back = fn()
        except Exception as e:
            v.append((f'{path}/raises/shape/{type(e).__name__}', f'{type(e).__name__}: {e} {ctx}'))
            continue
        compare(v, 'node', f'{path}-shape', n, back, with_id, ctx)
    # a service and an interface on their own, too
    if n.network_service_info:
        s = n.network_service_info.list_services()[0]
        for path, fn, with_id in roundtrips('service', s):
            try:
                compare(v, 'service', f'{path}-shape', s, fn(), with_id, ctx)
            except Exception as e:
                v.append((f'{path}/raises/shape/{type(e).__name__}', f'{type(e).__name__}: {e} {ctx}'))
        if s.interface_info:
            i = s.interface_info.list_interfaces()[0]
            for path, fn, with_id in roundtrips('interface', i):
                try:
                    compare(v, 'interface', f'{path}-shape', i, fn(), with_id, ctx)
                except Exception as e:
                    v.append((f'{path}/raises/shape/{type(e).__name__}', f'{type(e).__name__}: {e} {ctx}'))
    return {'v': v, 'nt': shape, 'out': 'shape'}


# ------------------------------------------------------------------------------------------ live model elements
ELEMENTS = ('node', 'component', 'service', 'interface', 'link')


def live():
    world.reset_all()
    t = ExperimentTopology()
    n = t.add_node(name='n1', site='S1')
    c = n.add_component(name='c1', model_type=ComponentModelType.SmartNIC_ConnectX_6)
    n2 = t.add_node(name='n2', site='S2')
    c2 = n2.add_component(name='c1', model_type=ComponentModelType.SmartNIC_ConnectX_6)
    s = t.add_network_service(name='s1', nstype=ServiceType.L2STS, interfaces=[c.interface_list[0], c2.interface_list[0]])
    return t


def element(t, kind):
    if kind == 'node':
        return t.nodes['n1']
    if kind == 'component':
        return t.nodes['n1'].components['c1']
    if kind == 'service':
        return t.network_services['s1']
    if kind == 'interface':
        return t.nodes['n1'].interface_list[0]
    return list(t.links.values())[0]


def eval_element(case):
    kind, p, i = case
    v = []
    t = live()
    e = element(t, kind)
    ctx = f'[{kind}.{p} value #{i}]'
    val = VOCAB[p][i]()
    # "an equal value": what the sliver's own setter/getter pair makes of the value (e.g. an address object)
    want = canon_field(make(kind, props=((p, i),)).get_property(p))
    try:
        if kind == 'node' and p == 'image_ref':
            e.set_properties(image_ref=val, image_type='qcow2')
        elif kind == 'node' and p == 'image_type':
            e.set_properties(image_ref='ref', image_type=val)
        else:
            e.set_property(p, val)
    except Exception as ex:
        v.append((f'element-set-raises/{kind}/{p}', f'{type(ex).__name__}: {ex} {ctx}'))
        return {'v': v, 'nt': tuple(case), 'out': 'raise'}
    try:
        e2 = element(t, kind)
        got = canon_field(e2.get_property(p))
    except Exception as ex:
        v.append((f'element-get-raises/{kind}/{p}', f'{type(ex).__name__}: {ex} {ctx}'))
        return {'v': v, 'nt': tuple(case), 'out': 'raise'}
    if got != want:
        v.append((f'element-get-after-set/{kind}/{p}', f'set {want}, read back {got} {ctx}'))
    # history: what a read returned belongs to the reader - editing it in place (without writing it back) changes neither the
    # next read of this element nor the model
    try:
        obj = element(t, kind).get_property(p)
        import enum as _enum
        if hasattr(obj, '__dict__') and not isinstance(obj, _enum.Enum) and type(obj).__module__.startswith('fim.'):
            for f2, val2 in list(obj.__dict__.items()):
                if isinstance(val2, list):
                    val2.append(val2[0] if val2 else 'x')
                elif isinstance(val2, bool):
                    obj.__dict__[f2] = not val2
                elif isinstance(val2, (int, float)):
                    obj.__dict__[f2] = val2 + 1
                elif isinstance(val2, str):
                    obj.__dict__[f2] = val2 + 'x'
        again = canon_field(element(t, kind).get_property(p))
        if again != want:
            v.append((f'element-read-not-repeatable/{kind}/{p}', f'after editing the object a read returned, the next read gives {again}, stored was {want} {ctx}'))
    except Exception as ex:
        v.append((f'element-read-not-repeatable/{kind}/{p}', f'{type(ex).__name__}: {ex} {ctx}'))
    # the graph stays serializable after any set
    try:
        t.serialize()
    except Exception as ex:
        v.append((f'element-set-breaks-serialization/{kind}/{p}', f'{type(ex).__name__}: {ex} {ctx}'))
    if p == 'stitch_node':
        return {'v': v, 'nt': tuple(case), 'out': 'ok'}           # always present
    if want is None:
        return {'v': v, 'nt': tuple(case), 'out': 'ok'}           # an all-empty value is absent already; unset of absent is unspecified
    for how in ('unset_property', 'set-None'):
        t = live()
        e = element(t, kind)
        try:
            if kind == 'node' and p in ('image_ref', 'image_type'):
                e.set_properties(image_ref='ref', image_type='qcow2')
            else:
                e.set_property(p, VOCAB[p][i]())
            if how == 'unset_property':
                e.unset_property(p)
            else:
                e.set_property(p, None)
        except Exception as ex:
            v.append((f'element-unset-raises/{kind}/{p}', f'{how}: {type(ex).__name__}: {ex} {ctx}'))
            continue
        try:
            got = canon_field(element(t, kind).get_property(p))
        except Exception as ex:
            v.append((f'element-get-raises/{kind}/{p}', f'{how}: {type(ex).__name__}: {ex} {ctx}'))
            continue
        if p == 'image_type':
            continue                                            # deliberately not individually unsettable (stored with image_ref)
        if got is not None:
            v.append((f'element-unset-no-effect/{kind}/{p}', f'{how}: still reads {got} {ctx}'))
    return {'v': v, 'nt': tuple(case), 'out': 'ok'}


def eval_type_alias(case):
    """the type of a live element written through each spelling (set_property, set_properties, the attribute) on a handle that
    has been looked at before, then read back through every spelling, on that handle and on a fresh one: either the write
    was refused and everything reads the old type, or everything reads the new one"""
    kind, ti, how = case
    v = []
    t = live()
    h = element(t, kind)
    new = TYPES[kind][ti]
    ctx = f'[{kind}.type := {new!r} through {how}]'
    try:
        old = h.type            # a first look through the alias
        _ = h.get_property('type')
    except Exception as ex:
        return {'v': [(f'type-alias/first-read-raises/{kind}', f'{type(ex).__name__}: {ex} {ctx}')], 'nt': None, 'out': 'raise'}
    try:
        if how == 'set_property':
            h.set_property('type', new)
        elif how == 'set_properties':
            h.set_properties(type=new)
        else:
            h.type = new
        done = True
    except Exception:
        done = False
    want = new if done else old
    reads = {}

    def fresh():
        # (a node that has become a facility is listed among the facilities)
        if kind == 'node' and 'n1' not in t.nodes:
            return t.facilities['n1']
        return element(t, kind)
    for tag, fn in (('handle.type', lambda: h.type), ('handle.get_property', lambda: h.get_property('type')),
                    ('handle.get_sliver', lambda: h.get_sliver().get_type()),
                    ('fresh.type', lambda: fresh().type), ('fresh.get_property', lambda: fresh().get_property('type'))):
        try:
            reads[tag] = fn()
        except Exception as ex:
            reads[tag] = f'raises {type(ex).__name__}'
    bad = {k: r for k, r in reads.items() if r is not want}
    if bad:
        v.append((f'type-alias/{"stale" if done else "changed-by-refused-write"}/{kind}/{how}/' + '+'.join(sorted(bad)),
                  f'{"accepted" if done else "refused"}; expected {want!r} everywhere, got {bad} {ctx}'))
    return {'v': v, 'nt': tuple(case), 'out': f'{kind}:{"set" if done else "refused"}'}


def _elem_set(e, kind, p, val):
    if kind == 'node' and p == 'image_ref':
        e.set_properties(image_ref=val, image_type='qcow2')
    elif kind == 'node' and p == 'image_type':
        e.set_properties(image_ref='ref', image_type=val)
    else:
        e.set_property(p, val)


def eval_element_pair(case):
    """set p, set q, read both; unset p: p absent, q still reads the value that was set"""
    kind, p, i, q, j = case
    v = []
    ctx = f'[{kind}: {p} value #{i}, then {q} value #{j}]'
    coupled = {'image_ref', 'image_type'}
    if kind == 'node' and p in coupled and q in coupled:
        return {'v': v, 'nt': None, 'out': 'coupled'}
    want_p = canon_field(make(kind, props=((p, i),)).get_property(p))
    want_q = canon_field(make(kind, props=((q, j),)).get_property(q))
    # the bulk setter: both in ONE call on a fresh model (also when a value equals what the element already holds)
    if p != q and not (kind == 'node' and (p in coupled or q in coupled)):
        t2 = live()
        try:
            element(t2, kind).set_properties(**{p: VOCAB[p][i](), q: VOCAB[q][j]()})
            for nm, want in ((p, want_p), (q, want_q)):
                got = canon_field(element(t2, kind).get_property(nm))
                if got != want:
                    v.append((f'element-bulk-set/{kind}/{nm}', f'set_properties({p}=..., {q}=...): {nm} reads {got}, was given {want} {ctx}'))
        except Exception as ex:
            v.append((f'element-pair-raises/{kind}/{p}+{q}', f'set_properties: {type(ex).__name__}: {ex} {ctx}'))
    t = live()
    try:
        _elem_set(element(t, kind), kind, p, VOCAB[p][i]())
        _elem_set(element(t, kind), kind, q, VOCAB[q][j]())
        got_p = canon_field(element(t, kind).get_property(p))
        got_q = canon_field(element(t, kind).get_property(q))
    except Exception as ex:
        v.append((f'element-pair-raises/{kind}/{p}+{q}', f'{type(ex).__name__}: {ex} {ctx}'))
        return {'v': v, 'nt': tuple(case), 'out': 'raise'}
    if got_p != want_p:
        v.append((f'element-set-disturbs-other/{kind}/{q}-changes-{p}', f'{p} was set to {want_p}; after setting {q} it reads {got_p} {ctx}'))
    if got_q != want_q:
        v.append((f'element-get-after-set/{kind}/{q}', f'set {want_q}, read back {got_q} {ctx}'))
    if p not in ('stitch_node', 'image_type') and want_p is not None:
        try:
            element(t, kind).unset_property(p)
            got_p = canon_field(element(t, kind).get_property(p))
            got_q = canon_field(element(t, kind).get_property(q))
        except Exception as ex:
            v.append((f'element-pair-raises/{kind}/{p}+{q}', f'unset: {type(ex).__name__}: {ex} {ctx}'))
            return {'v': v, 'nt': tuple(case), 'out': 'raise'}
        if got_p is not None:
            v.append((f'element-unset-no-effect/{kind}/{p}', f'still reads {got_p} {ctx}'))
        if got_q != want_q and not (kind == 'node' and p == 'image_ref' and q == 'image_type'):
            v.append((f'element-unset-disturbs-other/{kind}/{p}-changes-{q}', f'{q} was set to {want_q}; after unsetting {p} it reads {got_q} {ctx}'))
    return {'v': v, 'nt': tuple(case), 'out': 'ok'}


def eval_identity(case):
    kind, p = case
    v = []
    t = live()
    e = element(t, kind)
    before = canon_field(e.get_property(p))
    try:
        e.unset_property(p)
        after = canon_field(element(t, kind).get_property(p))
        if after != before or after is None:
            v.append((f'identity-unset-accepted/{kind}/{p}', f'{p} was {before}, now {after}'))
        else:
            v.append((f'identity-unset-silent/{kind}/{p}', f'unsetting identity property {p} did not raise'))
    except Exception:
        if canon_field(element(t, kind).get_property(p)) != before:
            v.append((f'identity-unset-changed/{kind}/{p}', ''))
    return {'v': v, 'nt': tuple(case), 'out': 'identity'}


REPLAY = {'type-alias': eval_type_alias, 'after-another-class': eval_after_other, 'flat': eval_flat, 'shapes': eval_shape, 'elements': eval_element, 'element-pairs': eval_element_pair, 'identity': eval_identity}


def run(report):
    gaps = {}
    flat = []
    for kind, K in KINDS.items():
        props = [p for p in K.list_properties() if p not in STRUCTURAL]
        gaps[kind] = sorted(p for p in props if p not in VOCAB)
        props = [p for p in props if p in VOCAB]
        for ti in range(len(TYPES[kind])):
            flat.append((kind, (), ti))                              # every enum member of the type field
        pv = [(p, i) for p in props for i in range(len(VOCAB[p]))]
        for x in pv:
            flat.append((kind, (x,), 0))
        for a, b in itertools.combinations(props, 2):
            flat.append((kind, ((a, 0), (b, len(VOCAB[b]) - 1)), 0))
        if report.tier != 'quick':
            # thorough: every pair of properties with every combination of their representative values, every triple of
            # properties, and every type member combined with each single property
            for a, b in itertools.combinations(props, 2):
                for i in range(len(VOCAB[a])):
                    for j in range(len(VOCAB[b])):
                        if (i, j) != (0, len(VOCAB[b]) - 1):
                            flat.append((kind, ((a, i), (b, j)), 0))
            for a, b, c in itertools.combinations(props, 3):
                flat.append((kind, ((a, len(VOCAB[a]) - 1), (b, 0), (c, len(VOCAB[c]) - 1)), 0))
            for ti in range(1, len(TYPES[kind])):
                for x in pv:
                    flat.append((kind, (x,), ti))
        flat.append((kind, tuple((p, 0) for p in props), 0))
        flat.append((kind, tuple((p, len(VOCAB[p]) - 1) for p in props), len(TYPES[kind]) - 1))
    g = explore_cases(report, 'flat', eval_flat, flat, chunk=32,
                      rule='per sliver class: every type-enum member; every single settable property x every representative value; every '
                           'unordered pair of properties; all-set (two value choices); through dict, JSON (node, service) and graph paths; '
                           'thorough adds every value combination of every pair, every triple of properties and every (type member, '
                           'property value); non-trivial = all cases')
    explore_cases(report, 'shapes', eval_shape, shape_cases(report.tier), chunk=8,
                  rule='all node trees with <=2 (thorough 3) components, 0/1 service per component, <=2 (3) node-level services, <=2 (3) '
                       'interfaces per service, <=2 (3) sub-interfaces per dedicated port; dict, JSON and graph paths for the node, a '
                       'service and an interface of it')
    el = []
    for kind in ELEMENTS:
        K = KINDS[kind]
        for p in K.list_properties():
            if p in STRUCTURAL or p not in VOCAB:
                continue
            for i in range(len(VOCAB[p])):
                el.append((kind, p, i))
    explore_cases(report, 'elements', eval_element, el, chunk=4,
                  rule='every element kind of a live topology x every settable property name x every representative value: set, read '
                       'back from a fresh handle, serialize, unset (unset_property and set_property(None)), read back')
    pairs = []
    for kind in ELEMENTS:
        ps = [p for p in KINDS[kind].list_properties() if p not in STRUCTURAL and p in VOCAB]
        for a in ps:
            for b in ps:
                if a == b:
                    continue
                if report.tier == 'quick':
                    pairs.append((kind, a, 0, b, len(VOCAB[b]) - 1))
                else:
                    pairs += [(kind, a, i, b, j) for i in range(len(VOCAB[a])) for j in range(len(VOCAB[b]))]
    explore_cases(report, 'element-pairs', eval_element_pair, pairs, chunk=16,
                  rule='every element kind x every ORDERED pair of distinct settable properties (quick: one value each, thorough: all '
                       'value combinations): set p, set q, read both back from fresh handles; unset p: p reads absent and q still reads '
                       'what was set')
    explore_cases(report, 'type-alias', eval_type_alias,
                  [(k, ti, how) for k in ELEMENTS for ti in range(len(TYPES[k])) for how in ('set_property', 'set_properties', 'attribute')],
                  chunk=8,
                  rule='every element kind of a live topology x every member of its type vocabulary x three spellings of the write '
                       '(set_property, set_properties, attribute) on a handle that was read before; read back through the attribute, '
                       'get_property and get_sliver on that handle and through a fresh handle: all agree on the new type, or - when '
                       'the write is refused - on the old one')
    explore_cases(report, 'after-another-class', eval_after_other,
                  [(k1, k2, ti2) for k1 in KINDS for k2 in KINDS if k1 != k2 for ti2 in range(len(TYPES[k2]))], chunk=8,
                  rule='every ordered pair of sliver classes x every type member of the second: the first class goes through all '
                       'conversion paths (with the type of the same NAME where its vocabulary has one), then the second; each case in '
                       'a forked process; the type must come back as the member of the second class\'s own vocabulary')
    explore_cases(report, 'identity', eval_identity, [(k, p) for k in ELEMENTS for p in ('name', 'type')], chunk=2,
                  rule='identity properties cannot be unset (must raise, value unchanged)')
    report.notes.append(f'setters without a vocabulary entry (coverage gap, not a violation): {gaps}')
    report.assumptions += ['node_id is compared on the graph path only (no setter, not part of the dict form)',
                           'documented couplings honoured: image_ref is stored only together with image_type; identity properties '
                           'cannot be unset; stitch_node is always present; an all-empty structured value equals absent']
