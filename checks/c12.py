"""C12 - delegations and pools survive encoding and regrouping unchanged.  Engine E2."""
import itertools
import json

import networkx as nx

from fim.slivers.capacities_labels import Labels, Capacities
from fim.slivers.delegations import (Delegation, Delegations, DelegationType, DelegationFormat, Pool, Pools)
from fim.graph.networkx_property_graph import NetworkXPropertyGraph
from fim.graph.resources.networkx_arm import NetworkXARMGraph

from fimmc import world
from fimmc.engine import explore_cases

LEVEL = 'exploration'
T = {'L': DelegationType.LABEL, 'C': DelegationType.CAPACITY}
DETAILS = {
    'L': [dict(vlan_range='100-200'), dict(ipv4_range='10.0.0.1-10.0.0.9', vlan=['1', '2']), dict(local_name='p"1\'é'),
          dict(mac='00:11:22:33:44:55', bdf=['0000:41:00.0']),
          # fields that are set, but to an empty string / an empty list: set is not the same as absent
          dict(local_name='', vlan_range='100-200', vlan=[])],
    'C': [dict(core=2), dict(core=32, ram=128, disk=10 ** 6), dict(unit=1), dict(bw=2 ** 40, mtu=9000), dict(cpu=1, burst_size=1)],
}
IDS = ('d1', 'd2', 'd3')
NDET = 5
# per-id variant: (format, pool, details-index)
POOLS = ('p1', 'p2', '')      # the empty string is a pool name like any other (only the marker '_' is reserved)
VARIANTS = [('S', None, i) for i in range(NDET)] + [('D', p, i) for p in POOLS for i in range(NDET)] + [('R', p, None) for p in POOLS]
FMT = {'S': DelegationFormat.SinglePool, 'D': DelegationFormat.PoolDefinition, 'R': DelegationFormat.PoolReference}


def mk_details(t, i):
    return Labels(**DETAILS[t][i]) if t == 'L' else Capacities(**DETAILS[t][i])


def details_fields(x):
    return None if x is None else dict(x.__dict__)


def build_set(t, members):
    ds = Delegations(atype=T[t])
    for did, (f, pool, di) in members:
        d = Delegation(atype=T[t], delegation_id=did, aformat=FMT[f], pool_id=pool)
        if di is not None:
            d.set_details(mk_details(t, di))
        ds.add_delegations(d)
    return ds


def describe(ds):
    out = {}
    for did, d in ds.delegations.items():
        out[did] = (d.get_delegation_type(), d.get_format(), d.get_pool_name(), details_fields(d.get_details()), d.get_delegation_id())
    return out


def eval_set(case):
    t, members = case[0], [(m[0], tuple(m[1])) for m in case[1]]
    v = []

    def bad(fp, msg):
        v.append((fp, f'{msg} [type {t} members {members}]'))
    try:
        ds = build_set(t, members)
    except Exception as e:
        return {'v': [('delegations/build-raises', f'{type(e).__name__}: {e} for {case}')], 'nt': None, 'out': 'build-raise'}
    want = describe(ds)
    # what was built is what was asked for (the expectation does not come from the objects under test alone)
    for did, (f, pool, di) in members:
        w = want.get(did)
        asked = (T[t], FMT[f], pool, details_fields(mk_details(t, di)) if di is not None else None, did)
        if w != asked:
            bad('delegations/constructed-differs', f'{did}: asked for {asked}, the container holds {w}')
            return {'v': v, 'nt': (t, tuple(members)), 'out': 'constructed-differs'}
    text = ds.to_json()
    try:
        back = Delegations.from_json(json_str=text, atype=T[t])
    except Exception as e:
        bad(f'delegations/decode-raises/{type(e).__name__}', f'decoding its own encoding {text} raised {type(e).__name__}: {e}')
        return {'v': v, 'nt': (t, tuple(members)), 'out': 'decode-raise'}
    if back is None:
        bad('delegations/decodes-to-absent', text)
        return {'v': v, 'nt': (t, tuple(members)), 'out': 'lost'}
    got = describe(back)
    if set(got) != set(want):
        bad('delegations/ids-differ', f'{sorted(want)} -> {sorted(got)}')
    for did in want:
        if did in got and got[did] != want[did]:
            w, g = want[did], got[did]
            part = 'format' if w[1] != g[1] else 'pool' if w[2] != g[2] else 'details' if w[3] != g[3] else 'other'
            bad(f'delegations/{part}-differs', f'{did}: {w} -> {g} via {text}')
    if back.to_json() != text:
        bad('delegations/not-canonical', f'{text} vs {back.to_json()}')
    # history: a decoded set belongs to its caller - re-keying / emptying it does not change the next decoding of the text
    try:
        scratch = Delegations.from_json(json_str=text, atype=T[t])
        for d_ in list(scratch.delegations.values()):
            d_.delegation_id = 'rekeyed-' + str(d_.delegation_id)
        scratch.delegations.clear()
        again = Delegations.from_json(json_str=text, atype=T[t])
        if again is None or describe(again) != want:
            bad('delegations/decode-not-repeatable', f'second decoding of {text} gives {None if again is None else describe(again)}')
    except Exception as e:
        bad('delegations/decode-not-repeatable', f'{type(e).__name__}: {e}')
    if describe(ds) != want:
        bad('delegations/encode-mutates', 'encoding changed the object')
    # history: after an encoding, a delegation is given other details and the set is encoded again - the second text
    # carries the new details (on a set built afresh, so that the guards below see the original)
    try:
        ds2 = build_set(t, members)
        ds2.to_json()
        changed = None
        for did, (f, pool, di) in members:
            if di is not None:
                ds2.delegations[did].set_details(mk_details(t, (di + 1) % NDET))
                changed = (did, details_fields(mk_details(t, (di + 1) % NDET)))
                break
        if changed is not None:
            back2 = Delegations.from_json(json_str=ds2.to_json(), atype=T[t])
            got2 = details_fields(back2.delegations[changed[0]].get_details()) if back2 is not None else None
            if got2 != changed[1]:
                bad('delegations/second-encoding-stale', f'{changed[0]} was given details {changed[1]} after a first encoding; the second encoding decodes to {got2}')
    except Exception as e:
        bad(f'delegations/second-encoding-raises/{type(e).__name__}', str(e))
    # decoding as the other type never yields this type's details
    other = 'C' if t == 'L' else 'L'
    try:
        wrong = Delegations.from_json(json_str=text, atype=T[other])
        for did, d in wrong.delegations.items():
            if d.get_details() is not None:
                bad('delegations/foreign-details-decoded', f'{did} decoded as {other} carries {d.get_details()}')
    except Exception:
        pass
    # guards
    did0, (f0, p0, di0) = members[0]
    try:
        dup = Delegation(atype=T[t], delegation_id=did0, aformat=FMT[f0], pool_id=p0)
        if di0 is not None:
            dup.set_details(mk_details(t, di0))
        ds.add_delegations(dup)
        bad('guards/duplicate-id-accepted', f'second delegation with id {did0} accepted')
    except Exception:
        pass
    if describe(ds) != want:
        bad('guards/duplicate-id-changed-content', f'{describe(ds)}')
    # a pool may not be called like the marker the encoding uses for "no pool": either refused, or kept apart from it
    for fk in ('D', 'R'):
        try:
            d = Delegation(atype=T[t], delegation_id='pm', aformat=FMT[fk], pool_id='_')
            if fk == 'D':
                d.set_details(mk_details(t, 0))
            one = Delegations(atype=T[t])
            one.add_delegations(d)
            back1 = Delegations.from_json(json_str=one.to_json(), atype=T[t])
            got1 = describe(back1) if back1 is not None else None
            if got1 != describe(one):
                bad(f'delegations/pool-named-like-the-single-marker/{fk}', f"{describe(one)} came back as {got1}")
        except Exception:
            pass
    # ... also when both arrive in ONE call
    try:
        two = []
        for _ in range(2):
            d = Delegation(atype=T[t], delegation_id=did0, aformat=FMT[f0], pool_id=p0)
            if di0 is not None:
                d.set_details(mk_details(t, di0))
            two.append(d)
        fresh = Delegations(atype=T[t])
        fresh.add_delegations(*two)
        bad('guards/duplicate-id-accepted/one-call', f'two delegations with id {did0} accepted by one add_delegations call')
    except Exception:
        pass
    try:
        d = Delegation(atype=T[t], delegation_id='x', aformat=FMT['S'])
        d.set_details(mk_details(other, 0))
        bad('guards/wrong-type-details-accepted', f'{other} details accepted by a {t} delegation')
    except Exception:
        pass
    try:
        d = Delegation(atype=T[t], delegation_id='x', aformat=FMT['R'], pool_id='p1')
        d.set_details(mk_details(t, 0))
        bad('guards/details-on-reference-accepted', 'details accepted by a pool reference')
    except Exception:
        pass
    try:
        d = Delegation(atype=T[other], delegation_id='zz', aformat=FMT['S'])
        d.set_details(mk_details(other, 0))
        ds.add_delegations(d)
        bad('guards/mixed-type-accepted', f'{other} delegation accepted into a {t} container')
    except BaseException:
        pass
    if 'zz' in ds.delegations:
        bad('guards/mixed-type-stored', 'foreign delegation stored')
    # restriction to one id keeps exactly that entry
    for did in want:
        one = ds.return_delegations_for_id(did)
        if one is None or describe(one) != {did: want[did]}:
            bad('delegations/return_delegations_for_id', f'{did}: {None if one is None else describe(one)}')
    if ds.return_delegations_for_id('absent') is not None:
        bad('delegations/return_delegations_for_id', 'absent id returned something')
    return {'v': v, 'nt': (t, tuple(members)), 'out': f'{t}{len(members)}'}


def set_cases():
    cases = []
    for t in ('L', 'C'):
        for n in (1, 2, 3):
            for ids in itertools.combinations(IDS, n):
                for vs in itertools.product(VARIANTS, repeat=n):
                    cases.append((t, tuple(zip(ids, vs))))
    return cases


# ------------------------------------------------------------------------------------------ pools
NODES = ('N1', 'N2', 'N3', 'N4')


def pool_variants():
    out = []
    for on in NODES:
        rest = [n for n in NODES if n != on]
        for k in (1, 2, 3):
            for ref in itertools.combinations(rest, k):
                for did in ('d1', 'd2'):
                    out.append((on, ref, did))
    return out


def pools_describe(p):
    return {pid: (pool.get_defined_on(), frozenset(pool.get_defined_for()), pool.get_delegation_id(),
                  details_fields(pool.get_pool_details()), pool.get_pool_type())
            for pid, pool in p.pool_by_id.items()}


def eval_pools(case):
    t, fam = case[0], [(f[0], tuple(f[1]), f[2]) for f in case[1]]
    scheme = case[2] if len(case) > 2 else 'plain'
    v = []

    def pname(i):
        # 'empty-first': the first pool is called '' - a name like any other
        return '' if (scheme == 'empty-first' and i == 0) else f'pool{i}'

    def bad(fp, msg):
        v.append((fp, f'{msg} [type {t} family {fam} names {scheme}]'))
    pools = Pools(atype=T[t])
    made = []
    for i, (on, ref, did) in enumerate(fam):
        if scheme == 'sets':
            # reference nodes given as a set; a later pool with the same reference nodes is given the very set object the
            # earlier pool hands out (what a caller copying one pool's nodes to another would write)
            # (the constructor drops the new pool's own defining node from what it is given)
            same = [q for q in made if set(q.get_defined_for()) - {on} == set(ref) - {on}]
            arg = same[0].get_defined_for() if same else set(ref)
        else:
            arg = list(ref)
        p = Pool(atype=T[t], pool_id=pname(i), delegation_id=did, defined_on=on, defined_for=arg)
        p.set_pool_details(mk_details(t, i % NDET))
        pools.add_pool(pool=p)
        made.append(p)
    want = pools_describe(pools)
    # what was built is what was asked for (each pool owns its reference-node set: building a second pool changes no other)
    asked = {pname(i): (on, frozenset(ref) - {on}, did) for i, (on, ref, did) in enumerate(fam)}
    built = {pid: (d[0], d[1] - {d[0]}, d[2]) for pid, d in want.items()}
    if built != asked:
        diff = {k: (asked.get(k), built.get(k)) for k in set(asked) | set(built) if asked.get(k) != built.get(k)}
        bad('pools/constructed-differs', f'asked for / built: {diff}')
        return {'v': v, 'nt': (t, tuple(fam), scheme), 'out': 'constructed-differs'}
    pools.build_index_by_delegation_id()
    # a node needing two entries under one delegation id cannot be represented per node - must be rejected loudly
    need = {}
    for i, (on, ref, did) in enumerate(fam):
        for n in (on,) + ref:
            need.setdefault((n, did), []).append(i)
    representable = all(len(x) == 1 for x in need.values())
    try:
        per_node = pools.generate_delegations_by_node_id()
    except Exception as e:
        if representable:
            bad('pools/regroup-raises', f'{type(e).__name__}: {e}')
        return {'v': v, 'nt': (t, tuple(fam)), 'out': 'rejected-loudly' if not representable else 'raise'}
    if not representable:
        bad('pools/unrepresentable-family-truncated', f'family needs two entries for one (node, delegation id) but regrouping returned {sorted(per_node)} silently')
        return {'v': v, 'nt': (t, tuple(fam)), 'out': 'silent'}
    # shape: one definition on the defining node, one reference on each reference node
    for i, (on, ref, did) in enumerate(fam):
        pid = pname(i)
        defs = [(n, d) for n, ds in per_node.items() for d in ds.delegations.values()
                if d.get_pool_name() == pid and d.get_format() == DelegationFormat.PoolDefinition]
        refs = sorted(n for n, ds in per_node.items() for d in ds.delegations.values()
                      if d.get_pool_name() == pid and d.get_format() == DelegationFormat.PoolReference)
        if [n for n, _ in defs] != [on]:
            bad('pools/definition-placement', f'{pid}: definitions on {[n for n, _ in defs]} expected [{on}]')
        elif defs[0][1].get_delegation_id() != did or details_fields(defs[0][1].get_details()) != want[pid][3]:
            bad('pools/definition-content', f'{pid}: {defs[0][1]}')
        if refs != sorted(ref):
            bad('pools/reference-placement', f'{pid}: references on {refs} expected {sorted(ref)}')
    # back through text, then regroup into pools
    for via in ('text', 'graph'):
        back = Pools(atype=T[t])
        try:
            if via == 'text':
                for n, ds in per_node.items():
                    dec = Delegations.from_json(json_str=ds.to_json(), atype=T[t])
                    back.incorporate_delegation(node_id=n, deleg=dec)
            else:
                world.reset_all()
                g = nx.Graph()
                for n in NODES + ('NX',):
                    g.add_node(n, NodeID=n, Class='NetworkNode', Name=n, Type='Server')
                imp = world.shared_importer()
                imp.storage.add_graph('ARM', g)
                arm = NetworkXARMGraph(graph=NetworkXPropertyGraph(graph_id='ARM', importer=imp))
                single = Delegations(atype=T[t])
                sd = Delegation(atype=T[t], delegation_id='d1', aformat=DelegationFormat.SinglePool)
                sd.set_details(mk_details(t, 1))
                single.add_delegations(sd)
                arm.annotate_delegations_and_pools(dels={'NX': single}, pools=pools)
                for n in NODES + ('NX',):
                    ds = arm.get_delegations(node_id=n, delegation_type=T[t])
                    if ds is not None:
                        back.incorporate_delegation(node_id=n, deleg=ds)
                other = arm.get_delegations(node_id='NX', delegation_type=T['C' if t == 'L' else 'L'])
                if other is not None:
                    bad('pools/graph-wrong-property', 'delegations written under the other type\'s property')
                s4 = arm.get_delegations(node_id='NX', delegation_type=T[t])
                if s4 is None or describe(s4) != describe(single):
                    bad('pools/graph-single-delegation', f'NX reads back {None if s4 is None else describe(s4)}')
            back.build_index_by_delegation_id()
        except Exception as e:
            bad(f'pools/{via}-roundtrip-raises', f'{type(e).__name__}: {e}')
            continue
        got = pools_describe(back)
        if got != want:
            diff = {k: (want.get(k), got.get(k)) for k in set(want) | set(got) if want.get(k) != got.get(k)}
            kind = 'references' if all(a and b and a[1] != b[1] and a[0] == b[0] for a, b in diff.values()) else 'content'
            bad(f'pools/{via}-roundtrip-{kind}', f'pools -> node delegations -> pools differs: {diff}')
        else:
            for did in {f[2] for f in fam}:
                w = sorted(p.get_pool_id() for p in pools.get_pools_by_delegation_id(did))
                g2 = sorted(p.get_pool_id() for p in (back.get_pools_by_delegation_id(did) or []))
                if w != g2:
                    bad('pools/index-by-delegation', f'{did}: {w} vs {g2}')
                if pools.get_node_ids(did) != back.get_node_ids(did):
                    bad('pools/node-ids-by-delegation', f'{did}: {pools.get_node_ids(did)} vs {back.get_node_ids(did)}')
    # history: an indexed pool moves to another delegation id and the container is indexed again - the result is what a
    # container built that way from scratch gives
    try:
        def build_family(f2):
            ps = Pools(atype=T[t])
            for i, (on, ref, did) in enumerate(f2):
                p = Pool(atype=T[t], pool_id=pname(i), delegation_id=did, defined_on=on, defined_for=list(ref))
                p.set_pool_details(mk_details(t, i % NDET))
                ps.add_pool(pool=p)
            ps.build_index_by_delegation_id()
            return ps

        def view(ps):
            ids = sorted(ps.get_delegation_ids())
            per = ps.generate_delegations_by_node_id()
            return (ids, {d: sorted(p.get_pool_id() for p in (ps.get_pools_by_delegation_id(d) or [])) for d in ids + ['d1', 'd2', 'd3']},
                    {n: describe(ds) for n, ds in per.items()})
        fam2 = [(on, ref, 'd3' if i == 0 else did) for i, (on, ref, did) in enumerate(fam)]
        pools.get_pool_by_id(pool_id=pname(0)).set_delegation_id(delegation_id='d3')
        pools.build_index_by_delegation_id()
        got2, want2 = view(pools), view(build_family(fam2))
        if got2 != want2:
            part = 'ids' if got2[0] != want2[0] else 'index' if got2[1] != want2[1] else 'node-delegations'
            bad(f'pools/reindex-after-change/{part}', f'after moving pool0 to d3 and re-indexing: {got2[:2]} expected {want2[:2]}')
    except Exception as e:
        bad(f'pools/reindex-after-change/raises/{type(e).__name__}', str(e))
    shared = len({f[2] for f in fam}) < len(fam)
    return {'v': v, 'nt': (t, tuple(fam), scheme), 'out': f'k{len(fam)}{"-shared-delegation" if shared else ""}'}


def pool_cases(tier):
    pv = pool_variants()
    cases = []
    for t in ('L', 'C'):
        for p in pv:
            cases.append((t, (p,)))
        for a, b in itertools.product(pv, repeat=2):
            cases.append((t, (a, b)))
        if tier == 'thorough':
            pv3 = [x for x in pv if len(x[1]) == 1]      # three pools: single-reference pools (otherwise never representable on 4 nodes)
            for a, b, c in itertools.product(pv3, repeat=3):
                cases.append((t, (a, b, c)))
    return cases + [c + ('empty-first',) for c in cases] + [c + ('sets',) for c in cases if len(c[1]) > 1]


REPLAY = {'sets': eval_set, 'pools': eval_pools}


def run(report):
    explore_cases(report, 'sets', eval_set, set_cases(), chunk=128,
                  rule='every non-empty subset of ids {d1,d2,d3} x per id (single | definition p1/p2 | reference p1/p2) x 4 detail '
                       'values x {label, capacity}: encode, decode, compare ids/formats/pools/details field-wise, re-encode; guards '
                       '(duplicate id, wrong-type details, details on a reference, foreign type) must raise and change nothing')
    g = explore_cases(report, 'pools', eval_pools, pool_cases(report.tier), chunk=32,
                      rule='every family of k pools over nodes N1..N4: defining node x non-empty reference set x delegation id; pools -> '
                           'per-node delegations -> (text | graph properties) -> pools must be the identity; families that need two '
                           'entries for one (node, delegation id) must be rejected loudly (counted separately, not violations)')
    report.require(g['outcomes'].get('rejected-loudly', 0) > 0, 'unrepresentable families rejected loudly')
    report.require(g['outcomes'].get('k2-shared-delegation', 0) > 0, 'two pools sharing one delegation id')
    report.notes.append(f"pool families rejected loudly (not representable per node): {g['outcomes'].get('rejected-loudly', 0)}")
    report.assumptions.append('delegations whose details have nothing set cannot be encoded (assertion in to_json) and are outside the domain')
