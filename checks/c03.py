"""C03 - attribute value codecs are lossless, canonical and never mutate their input.  Engine E2."""
import itertools
import json
import copy
from datetime import datetime, timezone, timedelta

from fim.slivers.capacities_labels import (Capacities, CapacityHints, Labels, ReservationInfo, StructuralInfo,
                                           Location, Flags, JSONField)
from fim.slivers.tags import Tags
from fim.slivers.json_data import MeasurementData, UserData, LayoutData
from fim.slivers.gateway import Gateway
from fim.slivers.path_info import PathInfo, ERO, Path, PathRepresentationType
from fim.slivers.maintenance_mode import MaintenanceInfo, MaintenanceEntry, MaintenanceState
from fim.graph import typed_tuples as tt

from fimmc.engine import explore_cases

LEVEL = 'exploration'

# ------------------------------------------------------------------------------------------------ JSONField family
BIG = 2 ** 40
LABEL_VALUES = {
    'bdf': ('0000:41:00.0', ['0000:41:00.0', '0000:41:00.1']),
    'mac': ('00:11:22:33:44:55', ['00:11:22:33:44:55', 'aa:BB:cc:DD:ee:FF']),
    'ipv4': ('192.168.1.1', ['10.0.0.1', '0.0.0.0']),
    'ipv4_range': ('192.168.1.1-192.168.1.10', ['10.0.0.1-10.0.0.2']),
    'ipv4_subnet': ('192.168.1.0/24', ['10.0.0.0/8', '0.0.0.0/0']),
    'ipv6': ('2001:0db8:85a3:0000:0000:8a2e:0370:7334', ['::1', 'fe80::1']),
    'ipv6_range': ('2001:db8::1-2001:db8::ff', ['::1-::2']),
    'ipv6_subnet': ('2001:0db8:85a3:0000:0000/48', ['fe80::/64']),
    'asn': ('12345', ['1', '4294967295']),
    'vlan': ('0', ['1', '4096']),
    'vlan_range': ('100-200', ['0-0', '1-4096']),
    'inner_vlan': ('7', ['0', '4096']),
    'instance': ('i-"quoted"', ['a', 'b']),
    'instance_parent': ('parént', ['p']),
    'local_name': ('p1', ['HundredGigE0/0/0/5', 'p 2']),
    'local_type': ('', ['t']),
    'device_name': ("dev'1", ['d\\1']),
    'bgp_key': ('secret-key', ['abcdef']),
    'account_id': ('123456789012', ['acc/1.2']),
    'region': ('us-east-1', ['sjc']),
    'usb_id': ('1234:abcd', ['0000:ffff']),
    'numa': ('-1', ['0', '7']),
}
DOMAINS = {
    'Capacities': (Capacities, {f: (0, 1, BIG) for f in ('cpu', 'core', 'ram', 'disk', 'bw', 'burst_size', 'unit', 'mtu')}),
    'CapacityHints': (CapacityHints, {'instance_type': ('fabric.c1.m4.d10', '', 'é"\'')}),
    'Labels': (Labels, LABEL_VALUES),
    'ReservationInfo': (ReservationInfo, {'reservation_id': ('r-1', ''), 'reservation_state': ('Active', 'None'),
                                          'error_message': ('boom "x"\nline2', ['e1', 'e2'])}),
    'StructuralInfo': (StructuralInfo, {'sub_graph_id': ('sg', ''), 'parent_graph_id': ('pg',),
                                        'adm_graph_ids': (['g1', 'g2'], [], 'single')}),
    'Location': (Location, {'postal': ('100 Europa Dr, Chapel Hill, NC', ''), 'lat': (0.0, -0.0, 35.9, -78.5),
                            'lon': (0.0, 10.5, -78.5)}),
    'Flags': (Flags, {f: (True, False) for f in ('auto_config', 'auto_mount', 'ipv4_management', 'ptp')}),
}
# an unknown (future) field carries a value of the kind the class stores
FUTURE_VALUE = {'Capacities': 5, 'Flags': True, 'Location': 1.5}
FUTURE_KINDS = ('x', 5, -1, 1.5, True, None, ['a', 1], {'a': {'b': 1}})
ALWAYS_ENCODES = {'Flags'}       # no unset sentinel: always encodes its booleans


def fields(obj):
    return dict(obj.__dict__)


def same(a, b):
    """field-wise equality that distinguishes types (0 vs 0.0 vs False) but treats -0.0 == 0.0"""
    if isinstance(a, dict) and isinstance(b, dict):
        return a.keys() == b.keys() and all(same(a[k], b[k]) for k in a)
    if isinstance(a, (list, tuple)) and isinstance(b, (list, tuple)):
        return len(a) == len(b) and all(same(x, y) for x, y in zip(a, b))
    if type(a) is not type(b):
        return False
    return a == b


def jsonfield_cases():
    out = []
    for cname, (cls, dom) in DOMAINS.items():
        fv = [(f, i) for f, vals in dom.items() for i in range(len(vals))]
        out.append((cname, ()))
        for x in fv:
            out.append((cname, (x,)))
        for x, y in itertools.combinations(fv, 2):
            if x[0] != y[0]:
                out.append((cname, (x, y)))
        for pick in (0, -1):
            out.append((cname, tuple((f, (pick % len(vals))) for f, vals in dom.items())))
    return out


def eval_jsonfield(case):
    cname, sel = case[0], tuple(tuple(x) for x in case[1])
    cls, dom = DOMAINS[cname]
    kw = {f: copy.deepcopy(dom[f][i]) for f, i in sel}
    v = []

    def bad(clause, field, msg):
        v.append((f'{cname}/{clause}' + (f'/{field}' if field else ''), f'{msg} [{cname}({kw})]'))

    try:
        x = cls(**kw)
    except Exception as e:
        return {'v': [(f'{cname}/constructor-rejects-domain-value', f'{cname}(**{kw}) raised {type(e).__name__}: {e}')],
                'nt': None, 'out': 'ctor-raise'}
    before = copy.deepcopy(fields(x))
    text = x.to_json()
    default = fields(cls())
    unset = all(same(before[f], default[f]) for f in before) and cname not in ALWAYS_ENCODES
    if not isinstance(text, str):
        bad('encode-not-text', '', f'to_json returned {text!r}')
        return {'v': v, 'nt': None, 'out': 'bad'}
    if unset:
        if text != '':
            bad('unset-not-empty-text', '', f'value with nothing set encodes as {text!r}')
        if cls.from_json(text) is not None:
            bad('unset-not-absent', '', 'empty text does not decode to None')
        return {'v': v, 'nt': None, 'out': 'unset'}
    try:
        y = cls.from_json(text)
    except Exception as e:
        bad('decode-raises', '', f'from_json({text!r}) raised {type(e).__name__}: {e}')
        return {'v': v, 'nt': (cname, sel), 'out': 'decode-raise'}
    if y is None:
        bad('decodes-to-absent', '', f'{text!r} decodes to None although fields are set')
        return {'v': v, 'nt': (cname, sel), 'out': 'lost'}
    fy = fields(y)
    for f in before:
        if not same(before[f], fy.get(f)):
            bad('field-lost', f, f'{f}={before[f]!r} came back as {fy.get(f)!r} via {text!r}')
    # history: what one decoding returned belongs to its caller - editing it does not change what the next decoding of the
    # same text returns
    try:
        scratch = cls.from_json(text)
        for f2, val in list(scratch.__dict__.items()):
            if isinstance(val, list):
                val.append(val[0] if val else 'x')
            elif isinstance(val, bool):
                scratch.__dict__[f2] = not val
            elif isinstance(val, (int, float)):
                scratch.__dict__[f2] = val + 1
            elif isinstance(val, str):
                scratch.__dict__[f2] = val + 'x'
        y2 = cls.from_json(text)
        f2y = fields(y2) if y2 is not None else {}
        if any(not same(before[f], f2y.get(f)) for f in before):
            bad('decode-not-repeatable', '', f'decoding {text!r} again after editing the first result gives {f2y}')
    except Exception as e:
        bad('decode-not-repeatable', '', f'{type(e).__name__}: {e}')
    text2 = y.to_json()
    if text2 != text:
        bad('not-canonical', '', f're-encoding gives {text2!r}, first encoding {text!r}')
    # encoding is valid JSON object whose keys are field names
    try:
        d = json.loads(text)
        assert isinstance(d, dict)
    except Exception:
        bad('encode-not-json-object', '', f'{text!r}')
        d = None
    # to_dict agrees with to_json on which fields are present
    td = x.to_dict()
    if d is not None and cname not in ALWAYS_ENCODES:
        if (td or {}).keys() != d.keys():
            bad('to_dict-disagrees', '', f'to_dict keys {sorted((td or {}).keys())} vs to_json keys {sorted(d.keys())}')
    # forward compatibility: one unknown key at every position - a key nobody uses, and keys that happen to be spelled like
    # something the class already has (a method, a class-level table)
    if d is not None:
        items = list(d.items())
        default = FUTURE_VALUE.get(cname, 'x')
        probes = [(uk, default, '' if uk == 'zz_future_field' else f'/{uk}')
                  for uk in ('zz_future_field', 'to_json', 'update', 'VALIDATORS')]
        # a future field need not have a value of a kind today's fields have
        probes += [('zz_future_field', fv, f'/value-{type(fv).__name__}') for fv in FUTURE_KINDS
                   if type(fv) is not type(default)]
        for uk, fv, tag in probes:
            for pos in range(len(items) + 1):
                d2 = dict(items[:pos] + [(uk, fv)] + items[pos:])
                try:
                    z = cls.from_json(json.dumps(d2))
                    fz = fields(z) if z is not None else {}
                    again = z.to_json() if z is not None else ''
                except Exception as e:
                    bad('unknown-key-raises' + tag, '', f'unknown key {uk!r} at position {pos}: {type(e).__name__}: {e}')
                    break
                lost = [f for f in before if not same(before[f], fz.get(f))]
                if lost:
                    bad('unknown-key-drops-known' + tag, lost[0], f'unknown key {uk!r} at position {pos} lost {lost}')
                    break
                if uk in fz or (uk != 'zz_future_field' and again != text):
                    bad('unknown-key-stored' + tag, '', f'unknown key {uk!r} became part of the value (re-encodes as {again!r})')
                    break
    # the encoder did not mutate its input
    if not same(before, fields(x)):
        bad('encode-mutates', '', f'fields changed from {before} to {fields(x)}')
    # update(): new object, original untouched, result = original + change
    for f, vals in dom.items():
        for i in range(len(vals)):
            nv = copy.deepcopy(vals[i])
            try:
                u = cls.update(x, **{f: nv})
            except Exception as e:
                bad('update-raises', f, f'update({f}={nv!r}) raised {type(e).__name__}: {e}')
                continue
            if u is x:
                bad('update-returns-same-object', f, 'update returned its argument')
            if not same(before, fields(x)) or x.to_json() != text:
                bad('update-mutates-original', f, f'after update({f}={nv!r}) original is {fields(x)}')
                x = cls(**{f2: copy.deepcopy(dom[f2][i2]) for f2, i2 in sel})
            want = dict(before)
            want[f] = nv
            if not same(want, fields(u)):
                bad('update-result', f, f'update({f}={nv!r}) gave {fields(u)} expected {want}')
            # "a new value": editing a list-valued field of the result in place must not reach the original
            touched = [f2 for f2, val in u.__dict__.items() if isinstance(val, list) and f2 != f]
            for f2 in touched:
                u.__dict__[f2].append(u.__dict__[f2][0] if u.__dict__[f2] else 'x')
            if touched and (not same(before, fields(x)) or x.to_json() != text):
                bad('update-aliases-original', touched[0], f'after update({f}=...) the list in field {touched[0]} of the result is the original\'s own list object')
                x = cls(**{f2: copy.deepcopy(dom[f2][i2]) for f2, i2 in sel})
    try:
        u0 = cls.update(x)
        if u0 is x or not same(before, fields(u0)):
            bad('update-copy', '', 'update() without changes is not an equal new object')
    except Exception as e:
        bad('update-raises', '', f'update() raised {type(e).__name__}: {e}')
    return {'v': v, 'nt': (cname, sel), 'out': f'{cname}:{len(sel)}'}


# ------------------------------------------------------------------------------------------------ other codecs
NAIVE = datetime(2024, 2, 29, 23, 59, 59)
MICRO = datetime(2024, 1, 1, 0, 0, 0, 123456)
AWARE = datetime(2024, 6, 1, 12, 0, 0, tzinfo=timezone.utc)
AWARE2 = datetime(2024, 6, 1, 12, 0, 0, 5, tzinfo=timezone(timedelta(hours=-5)))
DTS = (None, NAIVE, MICRO, AWARE, AWARE2)
JSON_OBJS = ({}, {'a': 1}, {'k': [1, 2, {'z': None}], 's': 'q"uoteé'}, [1, 2], 'str', 0, False, None)


def misc_cases():
    out = []
    # tags
    for t in ((), ('a',), ('a', 'b-c', '_x'), ('a', 'a'), ('0' * 255,), ('été',)):
        out.append(('Tags', list(t)))
    # json data
    for cls in ('MeasurementData', 'UserData', 'LayoutData'):
        for i in range(len(JSON_OBJS)):
            if not isinstance(JSON_OBJS[i], str):      # a str argument IS json text by the constructor's contract
                out.append(('JSONData', cls, 'obj', i))
            out.append(('JSONData', cls, 'str', i))
        for delta in (-2, -1, 0):           # extreme values: encodings just below / exactly at the size limit
            for form in ('obj', 'str'):
                out.append(('JSONDataBig', cls, form, delta))
    # gateway
    for fam in ('4', '6'):
        for mac in (False, True):
            out.append(('Gateway', fam, mac))
    out.append(('Gateway', 'none', False))
    # path info / ERO
    paths = [([], []), (['a'], ['a']), (['a', 'b', 'c'], ['c', 'b', 'a']), (['a', 'b'], ['x']), (None, None), (['hé"'], [])]
    for i in range(len(paths)):
        out.append(('PathInfo', 'Path', i))
        for strict in (False, True):
            out.append(('ERO', 'Path', i, strict))
    for gid in ('graph-1', '', 'g"q'):
        out.append(('PathInfo', 'Graph', gid))
        for strict in (False, True):
            out.append(('ERO', 'Graph', gid, strict))
    for ptn in ('Path', 'Graph'):
        out.append(('PathUnset', 'PathInfo', ptn))
        out.append(('PathUnset', 'ERO', ptn))
    out.append(('PathSymmetric', 0))
    # maintenance: every state x deadline x expected_end as single entries; pairs of entries; state given as text
    for s in range(4):
        for d in range(len(DTS)):
            for e in range(len(DTS)):
                out.append(('Maint', ((s, d, e, False),)))
    out.append(('Maint', ()))
    for a, b in itertools.combinations([(0, 0, 0, False), (1, 1, 3, False), (2, 4, 2, True), (3, 2, 0, True)], 2):
        out.append(('Maint', (a, b)))
    # typed tuples
    for cls in ('Label', 'Capacity', 'Location', 'AllocationConstraint'):
        out.append(('TypedTupleAll', cls))
    return out


PATHS = [([], []), (['a'], ['a']), (['a', 'b', 'c'], ['c', 'b', 'a']), (['a', 'b'], ['x']), (None, None), (['hé"'], [])]


def eval_misc(case):
    kind = case[0]
    v = []

    def bad(fp, msg):
        v.append((fp, f'{msg} [{case}]'))
    nt = tuple(_t(case))
    try:
        if kind == 'Tags':
            tags = list(case[1])
            x = Tags(*tags) if len(tags) != 2 else Tags(tags)          # both the varargs and the list form
            text = x.to_json()
            y = Tags.from_json(text)
            if y is None or list(y.tags) != tags:
                bad('Tags/field-lost', f'{tags} -> {text!r} -> {None if y is None else y.tags}')
            elif y.to_json() != text:
                bad('Tags/not-canonical', f'{text!r} vs {y.to_json()!r}')
            if list(x.tags) != tags:
                bad('Tags/encode-mutates', 'tags changed')
            if list(iter(x)) != tags:
                bad('Tags/iter', 'iteration differs')
        elif kind == 'JSONData':
            cls = {'MeasurementData': MeasurementData, 'UserData': UserData, 'LayoutData': LayoutData}[case[1]]
            obj = copy.deepcopy(JSON_OBJS[case[3]])
            arg = json.dumps(obj) if case[2] == 'str' else obj
            x = cls(arg)
            if arg is None:
                if x.json != '{}' or x.data != {}:
                    bad('JSONData/none-default', f'{x.json!r}')
            else:
                if x.data != obj or type(x.data) is not type(obj):
                    bad('JSONData/field-lost', f'{arg!r} -> data {x.data!r}')
                y = cls(x.json)
                if y.json != x.json:
                    bad('JSONData/not-canonical', f'{x.json!r} vs {y.json!r}')
                if y.data != obj:
                    bad('JSONData/field-lost', f're-decoded {y.data!r}')
            if case[2] == 'obj' and obj != JSON_OBJS[case[3]]:
                bad('JSONData/encode-mutates', 'input object changed')
            # history: decode, edit what came back, use the same blob again - a decode is the caller's own copy
            first = x.data
            if isinstance(first, dict):
                first['edited-by-caller'] = [1]
                for v in first.values():
                    if isinstance(v, (list, dict)):
                        v.clear()
            elif isinstance(first, list):
                first.append('edited-by-caller')
            if isinstance(first, (dict, list)):
                text = x.json
                if x.data != json.loads(text):
                    bad('JSONData/second-decode-differs', f'{text!r}: after the caller edited the first decode, data is {x.data!r}')
                twin = cls(text)
                if not (x == twin) or hash(x) != hash(twin):
                    bad('JSONData/second-decode-differs', f'{text!r}: blob no longer equals / hashes like a blob of the same text')
                if cls(x.data).json != cls(json.loads(text)).json:
                    bad('JSONData/second-decode-differs', f'{text!r}: re-encoding the decode gives another text')
        elif kind == 'JSONDataBig':
            cls = {'MeasurementData': MeasurementData, 'UserData': UserData, 'LayoutData': LayoutData}[case[1]]
            size = cls.MAX_SIZE + case[3]
            text = '{"k": "' + 'x' * (size - len('{"k": ""}')) + '"}'
            obj = json.loads(text)
            try:
                x = cls(obj if case[2] == 'obj' else text)
            except Exception:
                x = None                      # where exactly the limit lies is C16's business
            if x is not None:
                try:
                    y = cls(x.json)
                    if y.data != obj or y.json != x.json:
                        bad('JSONData/field-lost', f'{size}-char encoding re-decoded differently')
                except Exception as e:
                    bad('JSONData/own-encoding-rejected', f'{case[1]} accepted a value whose encoding has {len(x.json)} chars '
                        f'(limit {cls.MAX_SIZE}) but decoding that encoding raises {type(e).__name__}: {e}')
        elif kind == 'Gateway':
            if case[1] == 'none':
                x = Gateway(None)
                text = x.to_json()
                # a value with nothing set is encoded as empty text / read back as absent
                if text not in (None, ''):
                    bad('Gateway/unset-not-empty-text', f'{text!r}')
                for t in (None, ''):
                    y = Gateway.from_json(t)
                    if y is not None:
                        bad('Gateway/unset-not-absent', f'from_json({t!r}) gives an object (lab={y.lab}) instead of None')
            else:
                kw = dict(ipv4_subnet='192.168.1.0/24', ipv4='192.168.1.1') if case[1] == '4' else \
                    dict(ipv6_subnet='2001:db8::/64', ipv6='2001:db8::1')
                if case[2]:
                    kw['mac'] = '00:11:22:33:44:55'
                lab = Labels(**kw, vlan='5')          # extra label content must not leak into the gateway
                before = copy.deepcopy(fields(lab))
                x = Gateway(lab)
                text = x.to_json()
                y = Gateway.from_json(text)
                want = {k: kw.get(k) for k in fields(Labels())}
                if not same(fields(x.lab), want):
                    bad('Gateway/constructor', f'{fields(x.lab)}')
                if y is None or not same(fields(y.lab), want):
                    bad('Gateway/field-lost', f'{text!r} -> {None if y is None else fields(y.lab)}')
                elif y.to_json() != text:
                    bad('Gateway/not-canonical', f'{text!r} vs {y.to_json()!r}')
                if (y.gateway, y.subnet, y.mac) != (x.gateway, x.subnet, x.mac):
                    bad('Gateway/accessors', 'gateway/subnet/mac differ after round trip')
                if not same(before, fields(lab)):
                    bad('Gateway/encode-mutates', 'input labels changed')
        elif kind == 'PathUnset':
            # a path value with nothing set is encoded as empty text and read back as absent
            cls = PathInfo if case[1] == 'PathInfo' else ERO
            x = cls(PathRepresentationType[case[2]])
            try:
                text = x.to_json()
                if text not in ('', None):
                    bad(f'{case[1]}/unset-not-empty-text', f'{text!r}')
                if cls.from_json(text) is not None:
                    bad(f'{case[1]}/unset-not-absent', f'from_json({text!r}) is not None')
            except Exception as e:
                bad(f'{case[1]}/unset-raises', f'encoding a {case[1]} with no payload raised {type(e).__name__}: {e}')
        elif kind in ('PathInfo', 'ERO'):
            ptype = PathRepresentationType[case[1]]
            if kind == 'ERO':
                x = ERO(ptype, strict=case[3])
            else:
                x = PathInfo(ptype)
            if ptype == PathRepresentationType.Path:
                a2z, z2a = copy.deepcopy(PATHS[case[2]])
                p = Path()
                p.set(a2z=a2z, z2a=z2a)
                x.set(p)
            else:
                x.set(case[2])
            text = x.to_json()
            y = type(x).from_json(text)
            if y is None:
                bad(f'{kind}/decodes-to-absent', f'{text!r}')
            else:
                t1, p1 = x.get()
                t2, p2 = y.get()
                if t1 != t2:
                    bad(f'{kind}/field-lost/type', f'{t1} vs {t2}')
                if ptype == PathRepresentationType.Path:
                    if p2 is None or p1.get() != p2.get():
                        bad(f'{kind}/field-lost/payload', f'{p1.get()} vs {None if p2 is None else p2.get()}')
                elif p1 != p2:
                    bad(f'{kind}/field-lost/payload', f'{p1!r} vs {p2!r}')
                if kind == 'ERO' and y.get_strict() is not x.get_strict():
                    bad('ERO/field-lost/strict', f'{x.get_strict()} vs {y.get_strict()}')
                if y.to_json() != text:
                    bad(f'{kind}/not-canonical', f'{text!r} vs {y.to_json()!r}')
            if ptype == PathRepresentationType.Path and x.get()[1].get() != tuple(PATHS[case[2]]):
                bad(f'{kind}/encode-mutates', 'payload changed')
            for t in (None, ''):
                if type(x).from_json(t) is not None:
                    bad(f'{kind}/unset-not-absent', f'from_json({t!r}) is not None')
        elif kind == 'PathSymmetric':
            p = Path()
            src = ['a', 'b', 'c']
            p.set_symmetric(src)
            if p.get() != (['a', 'b', 'c'], ['c', 'b', 'a']) or src != ['a', 'b', 'c']:
                bad('Path/set_symmetric', f'{p.get()} src={src}')
        elif kind == 'Maint':
            mi = MaintenanceInfo()
            entries = {}
            for n, (s, d, e, as_text) in enumerate(case[1]):
                st = list(MaintenanceState)[s]
                ent = MaintenanceEntry(state=str(st) if as_text else st,
                                       deadline=DTS[d].isoformat() if (as_text and DTS[d]) else DTS[d],
                                       expected_end=DTS[e])
                entries[f'node{n}'] = (st, DTS[d], DTS[e])
                mi.add(f'node{n}', ent)
                given = dict(locals().get('given', {}), **{f'node{n}': ent})      # the caller's own entry objects

            def snap(m):
                return [(k, e.state, getattr(e, 'deadline', None), getattr(e, 'expected_end', None)) for k, e in m.list_details()]
            want = [(k, *val) for k, val in entries.items()]
            if snap(mi) != want:
                bad('Maint/constructor', f'{snap(mi)} vs {want}')
            mi.finalize()
            text = mi.to_json()
            y = MaintenanceInfo.from_json(text)
            if y is None:
                if entries:
                    bad('Maint/decodes-to-absent', f'{text!r}')
            else:
                if snap(y) != want:
                    bad('Maint/field-lost', f'{text!r} -> {snap(y)} expected {want}')
                elif y.to_json() != text:
                    bad('Maint/not-canonical', f'{text!r} vs {y.to_json()!r}')
                # decoded records are final
                for m in (mi, y):
                    for op in ('add', 'rem', 'pop'):
                        try:
                            if op == 'add':
                                m.add('intruder', MaintenanceEntry(state=MaintenanceState.Maint))
                            else:
                                getattr(m, op)('node0')
                            bad(f'Maint/finalized-{op}-accepted', 'finalized record was altered without an exception')
                        except Exception:
                            pass
                        if snap(m) != want:
                            bad(f'Maint/finalized-{op}-changed-content', f'{snap(m)}')
                # a copy is independent of the finalized original
                c = mi.copy()
                try:
                    c.add('copy-only', MaintenanceEntry(state=MaintenanceState.PreMaint))
                    if entries:
                        c.rem('node0')
                except Exception as e:
                    bad('Maint/copy-not-editable', f'{type(e).__name__}: {e}')
                if snap(mi) != want or mi.to_json() != text:
                    bad('Maint/copy-aliases-original', f'editing a copy changed the finalized original: {snap(mi)}')
                # ... nor through the entry objects it hands out (get / list_details / iter) or shares with a copy
                if entries:
                    other = list(MaintenanceState)[(list(MaintenanceState).index(want[0][1]) + 1) % len(list(MaintenanceState))]
                    for how, fetch in (('get', lambda m: m.get('node0')), ('list_details', lambda m: m.list_details()[0][1]),
                                       ('iter', lambda m: next(m.iter())[1]), ('copy+get', lambda m: m.copy().get('node0')),
                                       # the object the caller passed to add() before finalizing
                                       ('given-to-add', lambda m: given['node0'])):
                        try:
                            ent = fetch(mi)
                            ent.state = other
                            ent.deadline = MICRO
                        except Exception:
                            pass                 # refusing the edit is fine
                        if snap(mi) != want or mi.to_json() != text:
                            bad(f'Maint/finalized-altered-through-entry/{how}', f'after editing the entry obtained by {how} the finalized record reads {snap(mi)}')
                            break
                # forward compatibility: an unknown key inside an entry (at every position) is tolerated, known ones kept
                obj = json.loads(text) if text else {}
                for name in obj:
                    keys = list(obj[name].keys())
                    for pos in range(len(keys) + 1):
                        o2 = json.loads(text)
                        items = list(o2[name].items())
                        items.insert(pos, ('future_field', 'x'))
                        o2[name] = dict(items)
                        try:
                            z = MaintenanceInfo.from_json(json.dumps(o2))
                            if z is None or snap(z) != want:
                                bad('Maint/unknown-key-drops-known', f'{json.dumps(o2)!r} -> {None if z is None else snap(z)} expected {want}')
                        except Exception as e:
                            bad('Maint/unknown-key-rejected', f'{json.dumps(o2)!r} raised {type(e).__name__}: {e}')
            for t in (None, ''):
                if MaintenanceInfo.from_json(t) is not None:
                    bad('Maint/unset-not-absent', f'from_json({t!r}) is not None')
        elif kind == 'TypedTupleAll':
            cls = getattr(tt, case[1])
            probe = cls(fromstring='%s:x' % _first_type(cls))
            types = probe.lv.get_types(probe.category)
            for atype in types:
                for val in ('v', 'a:b', '10', 'x y', '', 'é', ' v', 'v ', ' v w ', 'first\nsecond', 'a\r\nb:c', '\nlead', 'tab\there'):
                    x = cls(atype=atype, aval=val)
                    text = x.get_as_string()
                    y = cls(fromstring=text)
                    if y.get_type() != atype or y.get_val() != val:
                        bad(f'{case[1]}/field-lost' + ('/surrounding-blanks' if val != val.strip() and '\n' not in val else ''),
                            f'{atype}:{val!r} -> {text!r} -> {y.get_type()}:{y.get_val()!r}')
                    if y.get_as_string() != text or repr(y) != text:
                        bad(f'{case[1]}/not-canonical', f'{text!r}')
                    z = cls(fromstring='%s:x' % atype)
                    z.parse_from_string(text)
                    if (z.get_type(), z.get_val()) != (atype, val):
                        bad(f'{case[1]}/parse_from_string', f'{text!r} -> {z.get_type()}:{z.get_val()!r}')
                    # a rejected text leaves the tuple as it was (and still decodable from its own encoding)
                    for rejected in ('no-such-type:blue', 'no-separator'):
                        try:
                            z.parse_from_string(rejected)
                            bad(f'{case[1]}/parse_from_string-accepts', f'{rejected!r} accepted')
                        except Exception:
                            pass
                        if (z.get_type(), z.get_val()) != (atype, val) or z.get_as_string() != text:
                            bad(f'{case[1]}/rejected-parse-mutates', f'after rejecting {rejected!r} the tuple reads {z.get_as_string()!r}, was {text!r}')
                            break
                    if (x.get_type(), x.get_val()) != (atype, val):
                        bad(f'{case[1]}/encode-mutates', 'changed by get_as_string')
                xi = cls(atype=atype, aval=10)
                if cls(fromstring=xi.get_as_string()).get_as_string() != xi.get_as_string():
                    bad(f'{case[1]}/not-canonical', 'integer value')
            try:
                cls(atype='no-such-type', aval='v')
                bad(f'{case[1]}/unknown-type-accepted', 'constructor accepted an undefined type')
            except Exception:
                pass
            nt = (case[1], len(types))
        else:
            raise AssertionError(case)
    except AssertionError:
        raise
    except Exception as e:
        import traceback
        bad(f'{kind}/raises/{type(e).__name__}', f'{type(e).__name__}: {e} {traceback.format_exc(limit=3)}')
    return {'v': v, 'nt': nt, 'out': kind}


def _first_type(cls):
    fn = {'Label': 'label_types.json', 'Capacity': 'capacity_types.json', 'Location': 'location_types.json',
          'AllocationConstraint': 'constraint_types.json'}[cls.__name__]
    import importlib.resources as r
    from fim.graph import data
    return list(json.loads(r.read_text(data, fn)).keys())[0]


def _t(x):
    return tuple(_t(y) for y in x) if isinstance(x, (list, tuple)) else x


REPLAY = {'jsonfield': eval_jsonfield, 'misc': eval_misc}


def run(report):
    cases = jsonfield_cases()
    g = explore_cases(report, 'jsonfield', eval_jsonfield, cases, chunk=64,
                      rule='JSONField classes: nothing set, every single (field,value), every pair of fields x values, all-set; '
                           'each case also tries one unknown key at every position and update() with every (field,value); '
                           'non-trivial = at least one field set',
                      space='7 classes; value domains listed in checks/c03.py DOMAINS')
    explore_cases(report, 'misc', eval_misc, misc_cases(), chunk=16,
                  rule='Tags, JSON data blobs, Gateway, PathInfo/ERO, MaintenanceInfo (4 states x 5 deadlines x 5 ends, pairs, '
                       'finalisation and copy independence), typed tuples over every type name of the shipped type files')
    report.require(g['outcomes'].get('unset', 0) >= 6, 'all-unset values of the JSONField classes')
    report.assumptions += ['JSONField family: field-wise comparison of instance dictionaries, type-sensitive; -0.0 and 0.0 are '
                           'distinguished only by ==', 'typed tuples compare the textual value (the encoding is text)']
