"""C20 - store lock discipline and identifier allocation under concurrent use.

(a) E1: BFS over sequences of store operations (incl. failing ones) with a counting lock substituted for storage.lock:
    after every call - return or raise - the lock is free and acquire/release are balanced.
(b) E3: real threads under the cooperative scheduler of fimmc/sched.py; all schedules with a bounded number of
    preemptions at every shared-access instruction of the store classes (and NetworkXPropertyGraph.add_node).
"""
import itertools

import networkx as nx

from fim.graph.networkx_property_graph import NetworkXPropertyGraph, NetworkXGraphStorage
from fim.graph.networkx_property_graph_disjoint import NetworkXPropertyGraphDisjoint, NetworkXGraphStorageDisjoint

from fimmc import world
from fimmc.canon import canon_nx, split_by_graph_id, digest
from fimmc.engine import Model, bfs, explore_cases
from fimmc import sched as S

LEVEL = 'model_checking'
BOUND3_LIMIT = 150000          # estimated executions above which a harness stays at two preemptions in the thorough tier


# =================================================================================================
# (a) sequential lock discipline
# =================================================================================================
class CountingLock:
    def __init__(self):
        self.held = False
        self.acquires = 0
        self.releases = 0
        self.errors = []

    def acquire(self, blocking=True, timeout=-1):
        if self.held:
            self.errors.append('acquire while held (a sequential caller would block forever)')
            raise RuntimeError('CountingLock: acquire while held')
        self.held = True
        self.acquires += 1
        return True

    def release(self):
        if not self.held:
            self.errors.append('release of an unlocked lock')
            raise RuntimeError('release unlocked lock')
        self.held = False
        self.releases += 1

    def locked(self):
        return self.held

    def __enter__(self):
        self.acquire()

    def __exit__(self, *a):
        self.release()


def _g(ids, gid=None, keys=None):
    g = nx.Graph()
    for n, i in enumerate(ids):
        d = dict(Class='NetworkNode', Name='n' + str(i), Type='VM')
        if i is not None:
            d['NodeID'] = i
        if gid:
            d['GraphID'] = gid
        g.add_node(keys[n] if keys else str(n + 1), **d)
    if len(ids) > 1:
        g.add_edge(*list(g.nodes)[:2], Class='has')
    return g


GOOD = _g(['a', 'b'])
GOOD2 = _g(['a', 'b', 'c'], keys=['a', 'b', 'c'])
NOID = _g(['a', None])               # second node lacks NodeID -> import must fail inside the critical section
GML = '\n'.join(nx.generate_graphml(GOOD))
GML_NOID = '\n'.join(nx.generate_graphml(NOID))
GML_DIRECT = {g: '\n'.join(nx.generate_graphml(_g(['a', 'b'], gid=g))) for g in ('G1', 'G2')}


class LockModel(Model):
    def __init__(self, flavour):
        self.flavour = flavour
        self.name = f'c20a-{flavour}'
        self.lock = None

    def store(self):
        return world.shared_store() if self.flavour == 'shared' else world.disjoint_store()

    def imp(self):
        return world.shared_importer() if self.flavour == 'shared' else world.disjoint_importer()

    def graph(self, gid):
        cls = NetworkXPropertyGraph if self.flavour == 'shared' else NetworkXPropertyGraphDisjoint
        return cls(graph_id=gid, importer=self.imp())

    def roots(self):
        return ['empty', 'one']

    def build_root(self, root):
        world.reset_all()
        self._fresh_lock()
        if root == 'one':
            self.store().add_graph('G1', GOOD.copy())
            self._fresh_lock()
        self._root, self._hist = root, []

    def _fresh_lock(self):
        self.lock = CountingLock()
        self.store().lock = self.lock

    # a state is its history (replayed on a store freshly built by the library's constructor); copies of the store's
    # containers are used only for the one-step allocation probes of the invariant
    def snapshot(self):
        return ('H', self._root, tuple(self._hist))

    def fast_snapshot(self):
        return ('C', world.snapshot_shared() if self.flavour == 'shared' else world.snapshot_disjoint(), tuple(self._hist))

    def restore(self, snap):
        if snap[0] == 'H':
            hist = list(snap[2])
            self.build_root(snap[1])
            for ev in hist:
                self.apply(ev)
        else:
            if self.flavour == 'shared':
                world.restore_shared(snap[1])
            else:
                world.restore_disjoint(snap[1])
            self._hist = list(snap[2])
        self._fresh_lock()

    def canon(self):
        if self.flavour == 'shared':
            gs = split_by_graph_id(world.shared_store().graphs)
            extra = ()
        else:
            st = world.disjoint_store()
            gs = {k: g for k, g in st.graphs.items() if len(g.nodes)}
            extra = tuple(sorted(k for k, g in st.graphs.items() if not len(g.nodes)))
        if self.flavour == 'shared':
            st0 = world.shared_store()
            healthy = st0.start_id > max(st0.graphs.nodes, default=0)
        else:
            healthy = all(dict.get(st.graph_node_ids, k, 1) > max(g.nodes, default=0) for k, g in st.graphs.items())
        return (tuple(sorted(((k, canon_nx(g)) for k, g in gs.items()), key=repr)), extra, healthy)

    def events(self):
        ev = []
        for g in ('G1', 'G2'):
            ev += [('add_graph', g, 'good'), ('add_graph', g, 'good2'), ('add_graph', g, 'noid'), ('add_graph', g, 'none'),
                   ('add_graph_direct', g, 'good'), ('add_graph_direct', g, 'none'),
                   ('extract_graph', g), ('del_graph', g), ('add_blank', g), ('add_blank_bad', g), ('get_graph', g),
                   ('import', g, 'good'), ('import', g, 'noid'), ('import', g, 'garbage'), ('import_direct', g),
                   ('add_node', g, 'x'), ('add_node', g, 'a'), ('delete_graph', g), ('serialize', g)]
        ev += [('clone', 'G1', 'G2'), ('clone', 'G2', 'G1'), ('del_all',)]
        return ev

    def apply(self, ev):
        self._hist = getattr(self, '_hist', []) + [ev]
        st = self.store()
        k = ev[0]
        payload = {'good': GOOD, 'good2': GOOD2, 'noid': NOID, 'none': None}
        try:
            if k == 'add_graph':
                p = payload[ev[2]]
                st.add_graph(ev[1], p.copy() if p is not None else None)
            elif k == 'add_graph_direct':
                p = payload[ev[2]]
                st.add_graph_direct(ev[1], p.copy() if p is not None else None)
            elif k == 'extract_graph':
                st.extract_graph(ev[1])
            elif k == 'del_graph':
                st.del_graph(ev[1])
            elif k == 'add_blank':
                st.add_blank_node_to_graph(ev[1], NodeID='blank', Class='NetworkNode')
            elif k == 'add_blank_bad':
                # attribute name clashing with the GraphID keyword -> TypeError raised inside the critical section
                st.add_blank_node_to_graph(ev[1], **{'GraphID': 'dup'})
            elif k == 'get_graph':
                st.get_graph(ev[1])
            elif k == 'import':
                s = {'good': GML, 'noid': GML_NOID, 'garbage': '<not-a-graph'}[ev[2]]
                self.imp().import_graph_from_string(graph_string=s, graph_id=ev[1])
            elif k == 'import_direct':
                self.imp().import_graph_from_string_direct(graph_string=GML_DIRECT[ev[1]])
            elif k == 'add_node':
                self.graph(ev[1]).add_node(node_id=ev[2], label='NetworkNode', props={'Name': 'n'})
            elif k == 'delete_graph':
                self.imp().delete_graph(graph_id=ev[1])
            elif k == 'serialize':
                self.graph(ev[1]).serialize_graph()
            elif k == 'clone':
                self.graph(ev[1]).clone_graph(new_graph_id=ev[2])
            elif k == 'del_all':
                self.imp().delete_all_graphs()
            else:
                raise AssertionError(ev)
            return ('ok',)
        except AssertionError:
            raise
        except Exception as e:
            return ('raise', type(e).__name__, str(e)[:80])

    def _node_sets(self):
        if self.flavour == 'shared':
            gs = split_by_graph_id(world.shared_store().graphs)
        else:
            gs = {k: g for k, g in world.disjoint_store().graphs.items() if len(g.nodes)}
        return {k: sorted((repr(d.get('NodeID')) for _, d in g.nodes(data=True))) for k, g in gs.items()}

    def observe(self):
        return self._node_sets()

    def invariant(self):
        """sequential half of the allocation clause: in every reachable state (incl. after failed imports, duplicate ids and
        delete-then-reimport) the next node created in any resident graph is a NEW node - no identifier is handed out twice"""
        v = []
        fl = self.flavour
        pre = self._node_sets()
        snap = self.fast_snapshot()
        for gid in sorted((g for g in pre if isinstance(g, str)), key=repr):
            out = self.apply(('add_blank', gid))
            post = self._node_sets()
            if out[0] == 'ok':
                if post.get(gid) != sorted(pre[gid] + [repr('blank')]):
                    v.append((f'alloc/{fl}/next-node-overwrote', f'[{fl}] creating a node in {gid} (NodeIDs {pre[gid]}) left {post.get(gid)}'))
                for other in pre:
                    if other != gid and post.get(other) != pre[other]:
                        v.append((f'alloc/{fl}/next-node-disturbed-other', f'[{fl}] creating a node in {gid} changed {other}: {pre[other]} -> {post.get(other)}'))
            self.restore(snap)
        return v

    def check(self, pre, ev, outcome):
        v = []
        lk = self.lock
        fl = self.flavour
        if ev[0] in ('add_node', 'add_blank') and outcome[0] == 'ok':
            post = self._node_sets()
            new = repr(ev[2]) if ev[0] == 'add_node' else repr('blank')
            if post.get(ev[1]) != sorted(pre.get(ev[1], []) + [new]):
                v.append((f'alloc/{fl}/{ev[0]}-overwrote', f'[{fl}] {ev}: graph held {pre.get(ev[1])}, now {post.get(ev[1])}'))
        if lk.held:
            v.append((f'lock/{fl}/{ev[0]}:left-held', f'[{fl}] after {ev} ({outcome}) the store lock is still held'))
        if lk.acquires != lk.releases:
            v.append((f'lock/{fl}/{ev[0]}:unbalanced', f'[{fl}] {ev} ({outcome}): {lk.acquires} acquires vs {lk.releases} releases'))
        for e in lk.errors:
            v.append((f'lock/{fl}/{ev[0]}:lock-error', f'[{fl}] {ev} ({outcome}): {e}'))
        if outcome[0] == 'raise' and 'lock' in outcome[2].lower():
            v.append((f'lock/{fl}/{ev[0]}:raised-lock-error', f'[{fl}] {ev} failed with a lock error: {outcome}'))
        return v

    def outcome_label(self, ev, outcome):
        return f'{ev[0]}{"/" + ev[2] if len(ev) > 2 else ""}:{outcome[0]}'


LOCK_SHARED = LockModel('shared')
LOCK_DISJOINT = LockModel('disjoint')


# -------------------------------------------------------------------------------------------------
# (a') exception paths: one injected failure inside every critical section
# -------------------------------------------------------------------------------------------------
def eval_fault_paths(case):
    """one store / importer / graph operation from a root state; for EVERY Python function entered while the store lock is
    held (networkx, networkx_query and the store's own helpers) one execution in which that entry fails: whatever the
    operation then does, it leaves the lock free and balanced"""
    from fimmc.faults import CalleeFaults
    fl, root, ev = case[0], case[1], tuple(case[2])
    m = LOCK_SHARED if fl == 'shared' else LOCK_DISJOINT
    v = []
    skip = {f.__code__ for f in (CountingLock.acquire, CountingLock.release, CountingLock.locked, CountingLock.__enter__, CountingLock.__exit__)}

    def fresh():
        m.build_root(root)
        return CalleeFaults(lambda: m.lock.held, skip)
    injected = 0
    n = '?'
    for k in range(5000):
        # k counts up until an execution meets no k-th entry any more: every entry of THAT execution prefix was failed once
        cf = fresh()
        lk = m.lock
        (kind, what), _ = cf.run(lambda: m.apply(ev), k)
        if cf.where is None:
            break
        injected += 1
        if lk.held:
            v.append((f'lock/{fl}/{ev[0]}:left-held-after-failure', f'[{fl}] {ev} from root {root}: a failure entering {cf.where} '
                                                                    f'(entry {k} of {n} inside the critical section) left the store lock held'))
        elif lk.acquires != lk.releases or lk.errors:
            v.append((f'lock/{fl}/{ev[0]}:unbalanced-after-failure', f'[{fl}] {ev} from root {root}: failure entering {cf.where}: '
                                                                     f'{lk.acquires} acquires vs {lk.releases} releases, errors {lk.errors}'))
    m.build_root(root)
    return {'v': v, 'nt': (fl, root, ev) if injected else None, 'out': 'faults-injected' if injected else 'no-critical-section',
            'tags': {f'entries:{injected}'}}


# =================================================================================================
# (b) interleavings
# =================================================================================================
def _inner(cls):
    for k, v in cls.__dict__.items():
        if k.endswith('__NetworkXGraphStorage'):
            return v
    raise AssertionError('inner store class not found')


def code_objects(flavour, scenario=''):
    inner = _inner(NetworkXGraphStorage if flavour == 'shared' else NetworkXGraphStorageDisjoint)
    codes = [f.__code__ for n, f in inner.__dict__.items() if callable(f) and hasattr(f, '__code__') and n != '__init__']
    codes.append(NetworkXPropertyGraph.add_node.__code__)
    # the constructors of the store and of its singleton shell matter only where no store exists yet (every handle and
    # importer construction passes through the shell: as scheduling-point code it would multiply every other harness)
    if scenario.startswith('first-use'):
        outer = NetworkXGraphStorage if flavour == 'shared' else NetworkXGraphStorageDisjoint
        codes += [inner.__init__.__code__, outer.__init__.__code__]
    if 'extract' not in scenario:
        return codes
    # a whole-graph copy made by a store method OUTSIDE its critical section is not one step: networkx walks the node and
    # adjacency dictionaries in Python, and another thread may be scheduled in between
    def nested(co):
        out = [co]
        for c in co.co_consts:
            if hasattr(c, 'co_code'):
                out += nested(c)
        return out
    codes += nested(nx.Graph.copy.__code__)
    return codes


SCENARIOS = {
    # name: list of per-thread op lists
    'add-add-same-graph': [[('add_node', 'g', 'x')], [('add_node', 'g', 'y')]],
    'add-add-other-graph': [[('add_node', 'g', 'x')], [('add_node', 'h', 'y')]],
    'import-import-fresh': [[('import', 'K1', 'good')], [('import', 'K2', 'good2')]],
    'import-add': [[('import', 'K1', 'good')], [('add_node', 'g', 'x')]],
    'import-import-same-id': [[('import', 'K1', 'good')], [('import', 'K1', 'good2')]],
    'add2-add': [[('add_node', 'g', 'x'), ('add_node', 'g', 'z')], [('add_node', 'g', 'y')]],
    'import-extract': [[('import', 'K1', 'good')], [('extract', 'g')]],
    'blank-extract': [[('blank', 'g', 'x')], [('extract', 'g')]],          # the graph being extracted grows meanwhile
    'blank-blank': [[('blank', 'g', 'x')], [('blank', 'g', 'y')]],
    'direct-direct': [[('import_direct', 'K1', 'good')], [('import_direct', 'K2', 'good2')]],
    'direct-blank': [[('import_direct', 'K1', 'good')], [('blank', 'g', 'x')]],
    'direct-import': [[('import_direct', 'K1', 'good')], [('import', 'K2', 'good2')]],
    'direct-direct-same-id': [[('import_direct', 'K1', 'good')], [('import_direct', 'K1', 'good2')]],
    'add-add-add': [[('add_node', 'g', 'x')], [('add_node', 'g', 'y')], [('add_node', 'h', 'z')]],
    'import-import-add': [[('import', 'K1', 'good')], [('import', 'K2', 'good')], [('add_node', 'g', 'x')]],
    # two threads create the first nodes of a graph id nobody has used before
    'newid-add-add': [[('add_node', 'NEW', 'x')], [('add_node', 'NEW', 'y')]],
    'newid-exists-import': [[('exists', 'NEW')], [('import', 'NEW', 'good')]],
    # everything is deleted while another thread imports a graph and creates a node in it
    'delall-import-blank': [[('del_all',)], [('import', 'K1', 'good'), ('blank', 'K1', 'x')]],
    # first use: no store exists yet in the process; each thread builds its own importer (which builds or finds the store)
    'first-use-import-import': [[('first_import', 'K1', 'good')], [('first_import', 'K2', 'good2')]],
    'first-use-import-add': [[('first_import', 'K1', 'good')], [('first_import', 'K2', 'good'), ('add_node', 'K2', 'x')]],
}
QUICK_SCEN = ['add-add-same-graph', 'add-add-other-graph', 'import-import-fresh', 'import-add', 'import-import-same-id',
              'add2-add', 'import-extract', 'blank-extract', 'blank-blank', 'direct-direct', 'direct-blank', 'direct-import',
              'first-use-import-import', 'delall-import-blank', 'newid-exists-import']


class Harness:
    def __init__(self, flavour, scenario):
        self.flavour = flavour
        self.scenario = scenario
        self.ops = SCENARIOS[scenario]
        self._seq = None

    def store(self):
        return world.shared_store() if self.flavour == 'shared' else world.disjoint_store()

    def imp(self):
        return world.shared_importer() if self.flavour == 'shared' else world.disjoint_importer()

    def graph(self, gid):
        cls = NetworkXPropertyGraph if self.flavour == 'shared' else NetworkXPropertyGraphDisjoint
        return cls(graph_id=gid, importer=self.imp())

    def _modules(self):
        import fim.graph.networkx_property_graph as m1
        import fim.graph.networkx_property_graph_disjoint as m2
        return (m1,) if self.flavour == 'shared' else (m1, m2)

    def setup_first_use(self, lock_factory):
        """no store instance; every lock the library creates from now on comes from lock_factory"""
        import threading as _th
        world.reset_all()
        self.made_locks = []
        h = self

        def mk():
            lk = lock_factory()
            h.made_locks.append(lk)
            return lk

        class Shim:
            Lock = staticmethod(mk)

            def __getattr__(self_, n):
                return getattr(_th, n)
        self._saved = []
        for m in self._modules():
            for name, val in (('Lock', mk), ('threading', Shim())):
                if hasattr(m, name):
                    self._saved.append((m, name, getattr(m, name)))
                    setattr(m, name, val)
        self._swap_class_locks(mk)
        outer = NetworkXGraphStorage if self.flavour == 'shared' else NetworkXGraphStorageDisjoint
        outer.storage_instance = None
        self.allocated = []

    def _swap_class_locks(self, factory):
        """locks held at class level by the singleton shells (a real lock held by a preempted thread would stop the
        cooperative scheduler for good): replaced by scheduler-aware ones for the duration of one execution"""
        import threading as _th
        self._saved_cls = []
        for outer in (NetworkXGraphStorage, NetworkXGraphStorageDisjoint):
            for k, v in list(outer.__dict__.items()):
                if type(v) is type(_th.Lock()):
                    self._saved_cls.append((outer, k, v))
                    setattr(outer, k, factory())

    def _restore_class_locks(self):
        for outer, k, v in getattr(self, '_saved_cls', []):
            setattr(outer, k, v)
        self._saved_cls = []

    def setup(self, lock):
        if self.scenario.startswith('first-use'):
            raise AssertionError('first-use harnesses are set up through setup_first_use')
        world.reset_all()
        st = self.store()
        st.add_graph('g', GOOD.copy())
        st.add_graph('h', _g(['a']))
        st.lock = lock
        self.allocated = []
        real = type(st).add_blank_node_to_graph

        def recording(graph_id, **attrs):
            r = real(st, graph_id, **attrs)
            self.allocated.append((graph_id, r))
            return r
        st.add_blank_node_to_graph = recording

    def teardown(self):
        if self.scenario.startswith('first-use'):
            for m, name, val in self._saved:
                setattr(m, name, val)
            self._restore_class_locks()
            return
        self._restore_class_locks()
        st = self.store()
        st.__dict__.pop('add_blank_node_to_graph', None)

    def do(self, op):
        k = op[0]
        if k == 'add_node':
            self.graph(op[1]).add_node(node_id=op[2], label='NetworkNode', props={'Name': 'n' + op[2], 'Type': 'VM'})
        elif k == 'blank':
            self.store().add_blank_node_to_graph(op[1], NodeID=op[2], Class='NetworkNode')
        elif k == 'import':
            self.store().add_graph(op[1], {'good': GOOD, 'good2': GOOD2}[op[2]].copy())
        elif k == 'import_direct':
            g = {'good': GOOD, 'good2': GOOD2}[op[2]].copy()
            for n in g.nodes:
                g.nodes[n]['GraphID'] = op[1]
            self.store().add_graph_direct(op[1], g)
        elif k == 'extract':
            self.store().extract_graph(op[1])
        elif k == 'exists':
            self.graph(op[1]).graph_exists()
        elif k == 'del_all':
            self.store().del_all_graphs()
        elif k == 'first_import':
            # a component of the process that has never touched the store: builds its importer, then imports
            imp = self.imp()
            imp.storage.add_graph(op[1], {'good': GOOD, 'good2': GOOD2}[op[2]].copy())
        else:
            raise AssertionError(op)

    def content(self):
        if self.flavour == 'shared':
            gs = split_by_graph_id(world.shared_store().graphs)
        else:
            gs = {k: g for k, g in world.disjoint_store().graphs.items() if len(g.nodes)}
        return tuple(sorted(((k, canon_nx(g)) for k, g in gs.items()), key=repr))

    def sequential_outcomes(self):
        """contents reachable by running the operations one at a time, in every order that respects per-thread order"""
        if self._seq is not None:
            return self._seq
        tags = []
        for t, ops in enumerate(self.ops):
            tags += [t] * len(ops)
        outs = set()
        for perm in set(itertools.permutations(tags)):
            if self.scenario.startswith('first-use'):
                self.setup_first_use(CountingLock)
            else:
                self.setup(CountingLock())
            idx = [0] * len(self.ops)
            for t in perm:
                self.do(self.ops[t][idx[t]])
                idx[t] += 1
            outs.add(self.content())
            self.teardown()
        self._seq = outs
        return outs

    def make_bodies(self, scheduler):
        if self.scenario.startswith('first-use'):
            self.setup_first_use(lambda: S.ModelLock(scheduler))
            ctx = {'lock': None, 'locks': self.made_locks}
        else:
            lock = S.ModelLock(scheduler)
            self.setup(lock)
            extra = []

            def mk():
                extra.append(S.ModelLock(scheduler))
                return extra[-1]
            self._swap_class_locks(mk)
            ctx = {'lock': lock, 'locks': [lock] + extra}

        def body(ops):
            def run():
                for op in ops:
                    self.do(op)
            return run
        return [body(ops) for ops in self.ops], ctx

    def check(self, x, ctx):
        v = []
        fl, sc = self.flavour, self.scenario
        lock = ctx['lock']
        content = self.content()
        ctx['outcome_key'] = (digest(content), tuple(sorted((k, r[0]) for k, r in x.results.items())), x.deadlock)
        if x.deadlock:
            v.append((f'deadlock/{fl}/{sc}', f'[{fl}/{sc}] no enabled thread: results={x.results}'))
        raised = False
        for t, r in x.results.items():
            if r is None or r[0] != 'ok':
                raised = True
                ops = [o[0] for o in self.ops[t]]
                if r and r[0] == 'raise' and 'dictionary changed size during iteration' in r[1] and 'add_node' in ops:
                    # the graph-level existence scan of add_node iterates the store's graph outside the store lock
                    v.append((f'unlocked-scan/add_node/{fl}', f'[{fl}/{sc}] thread {t} ({self.ops[t]}) ended with {r}'))
                else:
                    v.append((f'thread-raised/{fl}/{sc}', f'[{fl}/{sc}] thread {t} ({self.ops[t]}) ended with {r}'))
        for lock in ctx['locks']:
            if lock.owner is not None or lock.acquires != lock.releases or lock.errors:
                v.append((f'lock/{fl}/{sc}', f'[{fl}/{sc}] lock owner={lock.owner} acquires={lock.acquires} releases={lock.releases} errors={lock.errors}'))
        ids = self.allocated if fl == 'disjoint' else [('*', i) for _, i in self.allocated]
        if len(ids) != len(set(ids)):
            v.append((f'id-reused/{fl}/{sc}', f'[{fl}/{sc}] an internal identifier was handed out twice: {self.allocated}'))
        if not x.deadlock and not raised and content not in self.sequential_outcomes():
            v.append((f'not-serializable/{fl}/{sc}',
                      f'[{fl}/{sc}] final content matches no sequential order: {_brief(content)}'))
        self.teardown()
        return v


def _brief(content):
    return {k: sorted(n[0][1] for n in c[0]) for k, c in content}


def eval_schedules(case):
    """case = (flavour, scenario, bound) -> explores ALL schedules of that harness within the bound;
       case = (flavour, scenario, bound, schedule) -> replays one schedule"""
    case = tuple(case)
    flavour, scenario, bound = case[:3]
    h = Harness(flavour, scenario)
    seq = h.sequential_outcomes()
    sc = S.Scheduler(code_objects(flavour, scenario))
    sc.install()
    try:
        if len(case) > 3:
            bodies, ctx = h.make_bodies(sc)
            x = sc.run(bodies, list(case[3]))
            viols = [(fp, msg + f' schedule={list(x.choices)}') for fp, msg in h.check(x, ctx)]
            return {'v': viols, 'nt': None, 'out': 'replay'}
        # own the nondeterminism, then prove it: the same schedule must give identical observations twice
        obs = []
        for _ in range(2):
            bodies, ctx = h.make_bodies(sc)
            x = sc.run(bodies, [0, 1, 0, 1][:0])
            h.check(x, ctx)
            obs.append((list(x.choices), x.npoints, ctx.get('outcome_key')))
        if obs[0] != obs[1]:
            raise RuntimeError(f'scheduler nondeterminism: the default schedule gave {obs[0]} then {obs[1]}')
        stats = S.explore(sc, lambda: h.make_bodies(sc), h.check, min(bound, 2))
        if bound > 2:
            # thorough: one more preemption where that is affordable (estimate from the completed bound: executions grow
            # by about a third of the branch points per extra preemption); the completed bound is reported
            est = stats['executions'] * stats['max_branch_points'] / 3
            if est <= BOUND3_LIMIT:
                stats = S.explore(sc, lambda: h.make_bodies(sc), h.check, bound)
                stats['bound_completed'] = bound
            else:
                stats['bound_completed'] = 2
        else:
            stats['bound_completed'] = min(bound, 2)
        # ... and one explored non-default schedule replayed must reproduce its recorded branch structure
        if stats.get('last_schedule') is not None:
            bodies, ctx = h.make_bodies(sc)
            x = sc.run(bodies, stats['last_schedule'])
            h.check(x, ctx)
            if list(x.choices)[:len(stats['last_schedule'])] != stats['last_schedule']:
                raise RuntimeError('scheduler nondeterminism: replay of an explored schedule diverged')
    finally:
        sc.uninstall()
        if scenario.startswith('first-use') and hasattr(h, '_saved'):
            h.teardown()          # (idempotent) the library's modules get their real lock factory back whatever happened
        h._restore_class_locks()
        world.reset_all()
        import threading
        world.shared_store().lock = threading.Lock()
        world.disjoint_store().lock = threading.Lock()
    v = []
    seen = set()
    for fp, msg, schedule in stats['violations']:
        if fp not in seen:
            seen.add(fp)
            v.append((fp, msg + f' schedule={schedule}'))
    first = {}
    for fp, msg, schedule in stats['violations']:
        first.setdefault(fp, schedule)
    return {'v': v, 'nt': (flavour, scenario), 'out': f'{scenario}', 'tags': [],
            'stats': dict(executions=stats['executions'], distinct_outcomes=len(stats['outcomes']),
                          sequential_outcomes=len(seq), deadlocks=stats['deadlocks'],
                          max_branch_points=stats['max_branch_points'], max_steps=stats['max_steps'],
                          violating_schedules=len(stats['violations']), bound_completed=stats.get('bound_completed', bound)),
            'first_schedules': first}


def eval_replayable(case):
    """replay entry: cases recorded for violations carry the schedule"""
    return eval_schedules(case)


REPLAY = {'lock-shared': LOCK_SHARED, 'lock-disjoint': LOCK_DISJOINT, 'schedules': eval_replayable, 'fault-paths': eval_fault_paths}


def run(report):
    depth = 3 if report.tier == 'quick' else 4
    for name, m in (('lock-shared', LOCK_SHARED), ('lock-disjoint', LOCK_DISJOINT)):
        g = bfs(report, name, m, depth=depth, chunk=4,
                rule='sequences of store / importer / graph operations incl. failing ones with a counting lock substituted; '
                     'after every call the lock must be free, balanced and no lock error raised')
        report.require(any(k.endswith(':raise') for k in g['outcomes']), f'{name}: failing operations were exercised')
        report.require(g['outcomes'].get('add_graph/noid:raise', 0) > 0, f'{name}: import lacking NodeID fails inside the critical section')
    fcases = [(fl, root, ev) for fl in ('shared', 'disjoint') for root in (('one',) if report.tier == 'quick' else ('one', 'empty'))
              for ev in LOCK_SHARED.events()]
    gf = explore_cases(report, 'fault-paths', eval_fault_paths, fcases, chunk=2,
                       rule='deviation bound 1 on the exception paths: every store / importer / graph operation of the lock model from '
                            'a root state x EVERY Python function entered while the store lock is held, that entry failing; the lock '
                            'must end free and balanced')
    gf['injected_failures'] = sum(int(k.split(':')[1]) * n for k, n in gf['tags'].items() if k.startswith('entries:'))
    report.require(gf['injected_failures'] > 100, 'more than 100 failures injected inside critical sections')
    scen = QUICK_SCEN if report.tier == 'quick' else list(SCENARIOS)

    def bound_of(s):
        if report.tier == 'quick':
            return 2
        # thorough: 3 preemptions for the two-thread harnesses; the three-thread ones and the longest two-thread one
        # (whose schedule count grows with the cube of ~200 scheduling points) stay at 2
        return 2 if (len(SCENARIOS[s]) > 2 or s == 'add2-add') else 3
    cases = [(fl, s, bound_of(s)) for fl in ('shared', 'disjoint') for s in scen]
    g = explore_cases(report, 'schedules', _eval_and_pack, cases, chunk=1,
                      rule='each case = one 2-3 thread harness on one store flavour; ALL schedules with at most the stated '
                           'number of preemptions are executed (scheduling points before every shared-access instruction of the '
                           'store classes and at lock operations); distinct = harnesses', nsamples=4)
    # per-harness statistics were stashed in outcome labels by _eval_and_pack
    total_exec = 0
    multi = 0
    stats = {}
    for label, n in list(g['outcomes'].items()):
        if label.startswith('STAT|'):
            _, fl, s, ex, do, so, dl, bp, bc = label.split('|')
            stats[f'{fl}/{s}'] = dict(executions=int(ex), distinct_outcomes=int(do), sequential_outcomes=int(so),
                                      deadlocks=int(dl), max_branch_points=int(bp), preemption_bound_completed=int(bc))
            total_exec += int(ex)
            if int(do) >= 2:
                multi += 1
    g['kind'] = 'E3'
    g['states'] = len(stats)
    g['transitions'] = total_exec
    g['schedules_explored'] = total_exec
    g['preemption_bound'] = {k: v['preemption_bound_completed'] for k, v in stats.items()}
    g['per_harness'] = stats
    g['outcomes'] = {k: v for k, v in g['outcomes'].items() if not k.startswith('STAT|')}
    report.require(multi >= 2, 'at least two harnesses produced two or more distinct outcomes (threads really interleaved)')
    report.require(total_exec > 100, 'more than 100 schedules explored')
    # patch replay cases for schedule violations so that they carry the failing schedule
    for fp, v in report.violations.items():
        if v['group'] == 'schedules' and len(v['case']) == 3:
            sch = _extract_schedule(v['msg'])
            if sch is not None:
                v['case'] = tuple(v['case']) + (sch,)
    report.assumptions += [
        'callees outside the store classes (networkx, networkx_query) execute as atomic steps',
        'preemption granularity = CPython 3.12 bytecode instructions that can touch shared state, within the registered code objects',
        'thread bodies import graphs and create nodes (distinct NodeIDs); concurrent deletion is outside the statement',
    ]


def _extract_schedule(msg):
    import re
    import json
    m = re.search(r'schedule=(\[[0-9, ]*\])', msg)
    return json.loads(m.group(1)) if m else None


def _eval_and_pack(case):
    r = eval_schedules(case)
    if 'stats' in r:
        s = r['stats']
        r['out'] = (f"STAT|{case[0]}|{case[1]}|{s['executions']}|{s['distinct_outcomes']}|{s['sequential_outcomes']}|"
                    f"{s['deadlocks']}|{s['max_branch_points']}|{s.get('bound_completed', case[2])}")
    return r
