#!/bin/bash
# re-confirm every stored seed against the current /repo HEAD (sequential; logs /tmp/confirm_<seed>.log)
: > /tmp/confirm_summary.log
for d in /verif/seeded/*/; do
  s=$(basename $d); pid=${s:0:3}
  rm -rf /tmp/seed_$s; cp -r $d /tmp/seed_$s
  python3 /verif/tools/confirm_seed.py /tmp/seed_$s $s $pid > /tmp/confirm_$s.log 2>&1
  echo "$s exit=$? $(python3 -c "import json;m=json.load(open('/tmp/seed_$s/last_confirmation.json'));c=m;print(c.get('confirmed'),c.get('patch_applies'),c.get('demo_with_patch_rc'),{k:v['rc'] for k,v in c.get('checks',{}).items()})" 2>&1)" >> /tmp/confirm_summary.log
done
