#!/bin/bash
# re-confirm every stored seed against the current /repo HEAD, P at a time (default 4); logs /tmp/confirm_<seed>.log,
# summary /tmp/confirm_summary.log
P=${1:-4}
: > /tmp/confirm_summary.log
one() {
  s=$1; pid=${s:0:3}
  rm -rf /tmp/seed_$s; cp -r /verif/seeded/$s /tmp/seed_$s
  # the checks that caught it when it was stored (a seed is not always caught by the check of its own property)
  pids=$(python3 -c "import json;print(' '.join(json.load(open('/verif/seeded/$s/meta.json')).get('confirmation',{}).get('checks',{}).keys()) or '$pid')")
  python3 /verif/tools/confirm_seed.py /tmp/seed_$s $s $pids > /tmp/confirm_$s.log 2>&1
  echo "$s exit=$? $(python3 -c "import json;c=json.load(open('/tmp/seed_$s/last_confirmation.json'));print(c.get('confirmed'),c.get('patch_applies'),c.get('demo_with_patch_rc'),c.get('rebased'),{k:v['rc'] for k,v in c.get('checks',{}).items()})" 2>&1)" >> /tmp/confirm_summary.log
}
export -f one
ls /verif/seeded | xargs -P $P -I{} bash -c 'one {}'
