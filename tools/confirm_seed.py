#!/usr/bin/env python3
"""confirm_seed.py <src_dir> <seed_id> [PID ...]

Confirms a seeded defect delivered by a sub-agent, independently of the sub-agent:
  1. fresh scratch worktree of /repo HEAD under a mktemp dir (outside /repo and /verif)
  2. demo.py passes WITHOUT the patch
  3. patch applies; demo.py FAILS with the patch
  4. the repository's 77 baseline tests still pass with the patch
  5. optionally run our quick checks for the listed PIDs against the patched worktree (PYTHONPATH) and record rc
On success copies patch.diff, demo.py, meta.json (+ our confirmation record) to /verif/seeded/<seed_id>/ .
The scratch worktree is always removed.
"""
import json
import os
import shutil
import subprocess
import sys
import tempfile

src, sid = sys.argv[1], sys.argv[2]
pids = sys.argv[3:]
PY = '/venv/bin/python'
base = json.load(open('/root/.vp/BASELINE.json'))
stable = set(base['stable_pass'])
tmp = tempfile.mkdtemp(prefix='seedchk_')
wt = os.path.join(tmp, 'wt')
rec = {'seed': sid}


def sh(cmd, cwd=None, env=None, timeout=1800):
    e = dict(os.environ)
    e.update(env or {})
    r = subprocess.run(cmd, shell=True, cwd=cwd, env=e, capture_output=True, text=True, timeout=timeout)
    return r.returncode, r.stdout + r.stderr


try:
    rc, out = sh(f'git -C /repo worktree add -q --detach {wt} HEAD')
    assert rc == 0, out
    rec['repo_head'] = sh('git -C /repo rev-parse --short HEAD')[1].strip()
    shutil.copy(os.path.join(src, 'demo.py'), os.path.join(tmp, 'demo.py'))
    env = {'PYTHONPATH': wt, 'PYTHONDONTWRITEBYTECODE': '1'}
    rc0, out0 = sh(f'{PY} {tmp}/demo.py', cwd=wt, env=env, timeout=600)
    rec['demo_without_patch_rc'] = rc0
    rc, out = sh(f'git apply {os.path.abspath(src)}/patch.diff', cwd=wt)
    if rc != 0:
        # written against an earlier HEAD: try a three-way merge and keep the rebased patch
        rc, out2 = sh(f'git apply -3 {os.path.abspath(src)}/patch.diff', cwd=wt)
        if rc == 0:
            rec['rebased'] = True
            _, rebased = sh('git diff HEAD', cwd=wt)
            sh('git reset -q', cwd=wt)
            with open(os.path.join(src, 'patch.diff'), 'w') as f:
                f.write(rebased)
        else:
            out = out + out2
            # last resort: GNU patch with fuzz (context lines moved or were re-commented by later repairs)
            sh('git reset -q --hard HEAD', cwd=wt)
            rc, out3 = sh(f'patch -p1 -F3 --no-backup-if-mismatch -s < {os.path.abspath(src)}/patch.diff', cwd=wt)
            if rc == 0:
                rec['rebased'] = 'fuzz'
                _, rebased = sh('git diff HEAD', cwd=wt)
                with open(os.path.join(src, 'patch.diff'), 'w') as f:
                    f.write(rebased)
            else:
                sh('git checkout -q -- .; git clean -fdq', cwd=wt)
                out = out + out3
    rec['patch_applies'] = (rc == 0)
    if rc != 0:
        rec['apply_error'] = out[-500:]
        raise RuntimeError('patch does not apply')
    rc1, out1 = sh(f'{PY} {tmp}/demo.py', cwd=wt, env=env, timeout=600)
    rec['demo_with_patch_rc'] = rc1
    rec['demo_with_patch_tail'] = out1[-600:]
    junit = os.path.join(tmp, 'j.xml')
    rc, out = sh(f'{PY} -m pytest -q -p no:cacheprovider --timeout=900 --continue-on-collection-errors '
                 f'--junitxml={junit} test/', cwd=wt, env=env)
    import xml.etree.ElementTree as ET
    passed = set()
    for tc in ET.parse(junit).getroot().iter('testcase'):
        if not any(ch.tag in ('failure', 'error', 'skipped') for ch in tc):
            passed.add(f"{tc.get('classname')}::{tc.get('name')}")
    rec['baseline_pass_with_patch'] = len(stable & passed)
    rec['baseline_missing'] = sorted(stable - passed)
    rec['checks'] = {}
    for pid in pids:
        rc, out = sh(f'PYTHONHASHSEED=0 {PY} -m fimmc.run {pid} --tier quick', cwd='/verif',
                     env={'PYTHONPATH': wt, 'FIMMC_EVIDENCE_DIR': os.path.join(tmp, 'ev'),
                          'FIMMC_REPLAY_DIR': os.path.join(tmp, 'rp')})
        import re as _re
        rec['checks'][pid] = {'rc': rc, 'fingerprints': sorted(set(_re.findall(r'fingerprint=(\S+)', out)))[:12],
                              'tail': '\n'.join(out.strip().splitlines()[-6:])[-900:]}
except RuntimeError as e:
    rec['error'] = str(e)
finally:
    sh(f'git -C /repo worktree remove --force {wt}')
    shutil.rmtree(tmp, ignore_errors=True)

ok = (rec.get('demo_without_patch_rc') == 0 and rec.get('patch_applies') and rec.get('demo_with_patch_rc') not in (0, None)
      and rec.get('baseline_missing') == [])
rec['confirmed'] = bool(ok)
print(json.dumps(rec, indent=1))
json.dump(rec, open(os.path.join(src, 'last_confirmation.json'), 'w'), indent=1)
if ok:
    dst = f'/verif/seeded/{sid}'
    os.makedirs(dst, exist_ok=True)
    for f in ('patch.diff', 'demo.py'):
        if os.path.abspath(os.path.join(src, f)) != os.path.abspath(os.path.join(dst, f)):
            shutil.copy(os.path.join(src, f), os.path.join(dst, f))
    meta = json.load(open(os.path.join(src, 'meta.json')))
    meta['confirmation'] = rec
    meta['what_was_run'] = ('tools/confirm_seed.py: fresh scratch worktree of /repo HEAD; demo.py without patch (must exit 0), '
                            'with patch (must exit non-zero); the 77 stable baseline tests with the patch (all must pass); '
                            'then the listed quick checks with PYTHONPATH pointing at the patched worktree')
    json.dump(meta, open(os.path.join(dst, 'meta.json'), 'w'), indent=1)
sys.exit(0 if ok else 1)
