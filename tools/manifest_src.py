HOOK_COMMITS = []
ALL = ['C%02d' % i for i in range(1, 21)]
CHECKS = [
 dict(property_id='C15', engine='E2-enum', level='exploration',
      technique='model checking: bounded-exhaustive enumeration of operand pairs/triples on the real operators',
      text='Every ordered pair (and a cube of triples) of structured capacity vectors over all eight fields is run through the real '
           '+, -, <, >, ==, negative_fields, FreeCapacity and the printers; each law is checked on the raw field dictionaries. '
           'Exhaustive within the stated vector set, which is built so that every field carries a distinct value (cross-wiring) '
           'and zero/large values occur in every position.',
      note='Values outside the vector set (other magnitudes) are not covered; oracle reads instance __dict__ directly.'),
 dict(property_id='C06', engine='E2-enum', level='exploration',
      technique='model checking: exhaustive enumeration of all typed graphs up to a node bound x all query arguments, oracle from edge lists',
      text='All typed graphs up to 3 nodes (quick; 4 nodes up to node renaming for one vocabulary) / 4 nodes and restricted 5 (thorough), '
           'with every class assignment and every has/connects/none labelling of node pairs, are loaded into both in-memory stores next '
           'to two decoy graphs sharing the same NodeIDs; every first-neighbour, two-hop, shortest-path (with and without relation), '
           'path-with-hops and derived-helper query is executed and compared with an oracle computed from the node and edge lists.',
      note='Graph sizes beyond the bound are not covered. For path-with-hops only what both readings of "loop-free" agree on is asserted. '
           'Multiplicity of duplicate answers of helper queries is not judged.'),
 dict(property_id='C04', engine='E1-bfs', level='model_checking',
      technique='model checking: explicit-state BFS over store operation histories on the real stores, frame-condition oracle',
      text='Breadth-first search over all histories (depth 3 quick / 4 thorough, from an empty and a rich root) of ~60 graph operations '
           'on three graph ids that deliberately share NodeIDs and whose payload keys collide with internal ids, on both store flavours. '
           'Every transition is executed on the real store from a restored snapshot; the oracle is the frame condition (every other graph '
           'canonically unchanged), store integrity (no orphan / cross-graph edges), read-path isolation through the public API, clone '
           'content equality, and two look-ahead allocation probes in every reached state.',
      note='Alphabet values are short strings; depth bound as stated in evidence; state canonicalisation keeps the internal-id layout '
           'signature so that states with different allocator futures are never merged.'),
 dict(property_id='C05', engine='E1-bfs', level='model_checking',
      technique='model checking: explicit-state BFS with lock-step execution of two backends against an executable reference model',
      text='All histories to depth 4 (quick) / 5 (thorough), from an empty and a rich root, of ~75 property-graph operations (add/delete node, '
           'add link, single/bulk/whole-graph property updates incl. attempts on Class and every identity property, link property '
           'operations with right and wrong kind, merge with each policy, delete graph) are executed on the shared-store backend, the '
           'per-graph backend and a reference model written from the interface docstrings. After every step: raise/return agreement, '
           'whole-store snapshot equality with the model, ~40 query answers, identity invariants on the raw stores.',
      note='Trusted base: the reference model (fimmc/refmodel_graph.py, ~200 lines). Unspecified corners are three-valued (listed in '
           'evidence assumptions). After a merge only the shared backend continues (the per-graph backend documents merge as unsupported).'),
 dict(property_id='C20', engine='E1-bfs + E3-sched', level='model_checking',
      technique='model checking: (a) explicit-state BFS of store operation sequences with a counting lock; (b) stateless CHESS-style exploration of all thread schedules up to a preemption bound on the real store code',
      text='(a) All sequences to depth 3/4 of ~40 store, importer and graph operations (incl. imports lacking node ids, None payloads, '
           'duplicate ids, delete-then-reimport, garbage text) on both stores with storage.lock replaced by a counting lock: after every '
           'call, returning or raising, the lock is free, balanced, and no lock error occurred. (b) 8 (quick) / 10 (thorough) harnesses of '
           '2-3 real threads x 1-2 operations per store flavour run under a cooperative scheduler that owns every switch; scheduling points '
           'sit before every shared-access bytecode instruction of the store classes and NetworkXPropertyGraph.add_node and at lock '
           'operations; every schedule with <= 2 (quick) / <= 3 (thorough) preemptions is executed. Oracle: no thread raised, no deadlock, '
           'allocated internal ids pairwise distinct, final content equals that of some sequential order, lock free and balanced.',
      note='Callees outside the registered code objects (networkx_query, most of networkx) are atomic steps - networkx.Graph.copy is registered; memory-model effects below the GIL are '
           'out of reach. Thread bodies only import and create nodes with distinct NodeIDs. One open finding (unlocked existence scan).'),
 dict(property_id='C03', engine='E2-enum', level='exploration',
      technique='model checking: bounded-exhaustive enumeration of codec values (all singles, all pairs of fields x values, all-set) on the real encoders/decoders',
      text='For each of the seven JSONField classes every value built from nothing, one (field,value), any two fields x values, and all '
           'fields is encoded, decoded, re-encoded; one unknown key is injected at every position; update() is applied with every '
           '(field,value). Tags, the three JSON blob classes, Gateway, PathInfo/ERO, MaintenanceInfo (all states x 5 deadline forms x 5 end '
           'forms, pairs, finalisation, copy independence) and the four typed-tuple classes over every type name of the shipped type '
           'files get the same treatment. Comparison is field-wise and type-sensitive, never the class\'s own __eq__.',
      note='Coverage is all singles/pairs/all-set of the value domains listed in checks/c03.py, not all subsets; value domains are '
           'representative (zero/false/empty/extreme/non-ASCII/quoted), not all strings.'),
 dict(property_id='C16', engine='E2-enum', level='exploration',
      technique='model checking: exhaustive enumeration of short strings over field alphabets plus complete edit-distance-1 neighbourhoods of seeds, through every entry point, against hand-written recognisers',
      text='For each of the 17 validated label fields every string over a field-specific alphabet up to length 3-5 (quick) / 4-6 (thorough) '
           'and every deletion/substitution/insertion neighbour of seed members and boundary numbers is pushed through 15 entry points '
           '(constructor, bulk setter, copy-with-changes, seven list shapes, decoding of scalar and list text, delegation details, '
           'model-element update). A recogniser written without regular expressions decides membership in the documented language; '
           'outside => every entry point raises and nothing is stored, inside => accepted, stored verbatim, re-decodable. Tags, element '
           'names of all five sliver classes (setters, creation, rename, assignment), boot script and JSON blob limits and capacity values '
           'get the same two-sided treatment.',
      note='Long formats are covered to edit distance 1 around seeds, not over all strings; candidate alphabets are mostly ASCII. numa '
           '(no pattern) is decided only for canonical decimals. For the JSON blobs the exact limit may go either way, consistently on every path; the boot script boundary is pinned.'),
 dict(property_id='C12', engine='E2-enum', level='exploration',
      technique='model checking: exhaustive enumeration of delegation sets and pool families on the real encoders and regrouping code',
      text='Every non-empty subset of three delegation ids with every per-id format (single, definition/reference of two pools) and four '
           'detail values, for both types (6748 sets), is encoded, decoded, compared field-wise and re-encoded, and every documented guard '
           'is probed. Every family of 1-2 pools (thorough: 3) over four nodes (defining node x non-empty reference set x delegation id, '
           '6384 families) is turned into per-node delegations, carried through text and through graph properties of a small ARM graph '
           '(annotate_delegations_and_pools / get_delegations), regrouped with incorporate_delegation and compared with the original; '
           'placement of definitions and references is checked directly; unrepresentable families must be rejected loudly.',
      note='Bounded to 3 ids / 4 nodes / 2-3 pools and four detail values per type; empty details are outside the domain.'),
 dict(property_id='C18', engine='E2-enum', level='exploration',
      technique='model checking: fully exhaustive enumeration of the request grid and of catalogue entries x argument forms, brute-force Pareto oracle',
      text='Every (core, ram, disk) request on the grid {catalogue value-1, value, value+1} U {0} per dimension (all ~37k requests) is mapped '
           'by the real map_capacities_to_instance and judged by a brute-force oracle over the 869 catalogue entries: sufficient whenever '
           'anything is, Pareto-minimal, largest entry otherwise; all names agree with their capacities. Every catalogue component x '
           'naming form (type+model, combined enum member, each alias) x generated/supplied ids x five label forms x parent name is '
           'generated and its whole tree compared with the catalogue JSON; the combined enumeration is checked to be a bijection.',
      note='Oracle data are read from the same JSON files the library ships (the property is agreement with the catalogue). The grid is '
           'complete for the stated value set; requests between grid values behave like a grid neighbour by monotonicity of the filter.'),
 dict(property_id='C17', engine='E2-enum', level='exploration',
      technique='model checking: exhaustive enumeration of edit scripts (all singles, all ordered pairs, thorough: triples) over base slivers against an independent reference comparison',
      text='Eleven base slivers (nodes with 0-2 components incl. a SmartNIC with sub-interfaces and 0-2 node-level services; services '
           'with plain/dedicated/shared ports; ports with sub-interfaces) x every single edit and every ordered pair of edits (add/remove '
           'component, node-level service, interface, sub-interface; set each tracked property of every element of the tree to two '
           'values or unset; equal-valued user data on both sides; no edit). NodeSliver/NetworkServiceSliver/InterfaceSliver.diff in '
           'both directions is compared with a value-based reference comparison written independently of the library (added/removed '
           'names, exact flag sets, None iff nothing differs, added(old->new) = removed(new->old)).',
      note='Trusted base: the ~80-line reference comparison in checks/c17.py. SUB_INTERFACES is three-valued where only a port\'s or a '
           'SmartNIC service\'s own properties differ. Topology-level diff (Neo4j only) is out of scope of the property\'s anchors.'),
 dict(property_id='C07', engine='E1-bfs', level='model_checking',
      technique='model checking: explicit-state BFS over topology-building call histories on the real API, invariants = published graph rules transliterated + containment + views',
      text='Breadth-first search over all histories of the documented building calls (add/remove node, switch, facility, component, storage, '
           'service with 0-2 interfaces, port-mirror service, connect/disconnect, peer/unpeer, add/remove sub-interface, rename, set/unset '
           'property, duplicate-name/id attempts; substrate flavour with static ids, patch and three-ended links) from an empty model '
           '(depth 3 quick / 4 thorough) and from rich roots (depth 2 / 2-3). In every reached state the published rules of '
           'graph_validation_rules.json (vocabularies parsed from the file itself), the ownership structure, name uniqueness per scope and '
           'equality of every read-only view with the class listings are evaluated on the raw stored graph; views are probed for write-through.',
      note='States violating a structural rule are reported and not expanded further. Alphabet: 2 nodes, 3-5 component models, 6 service '
           'types, 2 sub-interfaces; see fimmc/topo.py. Two open findings (rename bypasses name uniqueness; derived service-port / link names).'),
 dict(property_id='C08', engine='E1-bfs', level='model_checking',
      technique='model checking: explicit-state BFS; every applicable removal in every reached state compared with a reference prediction of the full post-state',
      text='Same driver and roots as C07. In every reached state every applicable removal / disconnect / un-peer / sub-interface removal '
           '(11 kinds) is executed from a restored snapshot and the full post-state (all nodes, properties, edges, keyed by real ids) is '
           'compared with pre-state minus the owned closure computed by a reference model from the raw pre-state graph; the handles the '
           'operation was performed through must list the same interfaces as freshly looked-up ones; un-peering services that do not '
           'peer must raise and change nothing.',
      note='Trusted base: the ~90-line closure computation in fimmc/topo.py (c08_targets). Ambiguous lookups (duplicate names) are '
           'skipped as unspecified.'),
 dict(property_id='C09', engine='E1-bfs', level='model_checking',
      technique='model checking: explicit-state BFS with fault enumeration - every failing variant of every building call in every reached state',
      text='Same driver. In every reached state ~40-60 failing variants are executed (duplicate names and ids at every level, invalid name, '
           'missing site/type, unknown model, a rejected property first/middle/last among valid ones, unknown property, a new service whose '
           'k-th interface (k=1..3) is already connected / shared-on-L2PTP / not node-owned / a stale handle / listed twice, bad port-mirror '
           'target, bad connect, peer twice, sub-interface without vlan / duplicate name / duplicate vlan / bad property / on a shared '
           'port, facility and switch with a rejected inner step, links with a ghost interface at each position) plus every ordinary '
           'event that happens to raise; whenever the call raised the full model snapshot must equal the snapshot before the call.',
      note='Exception class is not constrained. Calls that unexpectedly succeed are judged by C07, not here.'),
 dict(property_id='C10', engine='E2-enum', level='exploration',
      technique='model checking: exhaustive enumeration of the slice parameter product, each slice built through the real API, two-sided oracle over a pinned constraint table',
      text='15 service types x 0-4 connected interfaces x 1/2/3-site placement x five interface-kind patterns x declared site (unset / '
           'matching / other) x seven constrained-property settings x two construction modes (constructor list | connect_interface '
           'afterwards) - 7k slices quick (declared site and properties toggled one at a time), ~36k thorough (jointly) - are built '
           'with the real topology API and validated; accept/reject is compared with a predicate over a copy of ServiceConstraints / '
           'NodeConstraints pinned in the checker (any drift between the copy and the library table is reported); after acceptance '
           'the inferred site must be recorded; the at-once guardrail must fire exactly for SharedPort on L2PTP. Node types x '
           '(plain, site unset, image, management ip, component) and port-mirror services get the same treatment.',
      note='For types without a site limit the declared-site agreement is unspecified; num_instances has no decidable case (all NO_LIMIT).'),
 dict(property_id='C11', engine='E2-enum', level='exploration',
      technique='model checking: exhaustive enumeration of slice descriptions x all permutations of node and service creation order, independent tally oracle',
      text='Slice descriptions (1-3 nodes on two sites with pairwise distinct cpu/ram/disk and component mixes; all multisets of 0-2 '
           'services per configuration, 3 on the two-site configuration (thorough: up to 4 everywhere) from {bridge with bandwidth, '
           'FABNetv4Ext, FABNetv6Ext, port mirror of an in-slice port, port mirror of an outside port}, optional facility) are built '
           'through the real API in EVERY order of node creation and of service creation, validated, and collected from the topology '
           'and from its serialized model. Oracle: tally read from the raw stored graph (multiset equality for cpu/ram/disk/bw/'
           'components/facilities, set equality for sites and external-service sites, mirror sites must name every out-of-slice '
           'mirror), identical attribute map across all orders and both sources, PDP request structure, accounting counts.',
      note='In-slice is defined by the service-port local_name label as the library documents it; in-slice mirror sites are only '
           'constrained by order-independence.'),
 dict(property_id='C02', engine='E2-enum', level='exploration',
      technique='model checking: bounded-exhaustive enumeration of slivers over the reflectively discovered property vocabulary and of containment shapes, through all conversion paths',
      text='For each of the five sliver classes the settable property names are discovered with list_properties(); every type-enum '
           'member, every single property x every representative value (all enum members, JSON-, address-, delegation-, path- and '
           'maintenance-typed values, zero/false/empty forms), every unordered pair of properties and two all-set slivers go through the '
           'dictionary, JSON and graph paths and come back compared field by field on canonical JSON (plus tree shape and node ids on '
           'the graph path). All containment trees up to 2 (thorough 3) components / services / interfaces / sub-interfaces are '
           'round-tripped for the node, a service and an interface. On a live topology every element kind x property x value is set, '
           're-read from a fresh handle, serialized, unset both ways and re-read; identity properties must refuse unsetting.',
      note='All singles and pairs, not all subsets; representative values per property (listed in checks/c02.py VOCAB); a setter '
           'without vocabulary entry is reported as a coverage gap in evidence (currently none).'),
 dict(property_id='C01', engine='E2-enum + E1-bfs', level='exploration',
      technique='model checking: exhaustive enumeration of small raw property graphs x adversarial values x formats x import entry points x store flavours, plus BFS over models reached through the topology API',
      text='(a) All typed raw graphs up to 3 nodes, node keys colliding with internal ids, every adversarial value (empty, blanks, tab, '
           'newline, quotes, markup, CDATA end, entity text, non-ASCII, "None", "true", JSON text, 0, 5, -1, 2^40) alone on a node and on an '
           'edge property and all pairs of values, are stored next to two decoy graphs sharing the NodeIDs, serialized to GraphML and '
           'JSON node-link and re-imported through import_graph_from_string / _file (new id), _string_direct / _file_direct (same id) and '
           'clone_graph on both stores; the copy must equal the original (ids, classes, typed values, edges), validate, re-serialize to '
           'the same content, carry the Neo4j label markup on every node and edge, and leave other graphs untouched. (b) Every model '
           'reached by the topology driver (depth 3 from empty, 1-2 from rich roots, both flavours) gets the same treatment plus '
           'Topology.serialize/load (string, file, new id) and import into the per-graph store. (c) The four shipped advertisement files.',
      note="'\\r' and C0 controls and mixed Python types under one attribute name are outside the stated domain. Values are one-factor and "
           'pairwise, not all combinations.'),
 dict(property_id='C13', engine='E2-enum', level='exploration',
      technique='model checking: exhaustive enumeration of all delegation assignment vectors over generated substrate models, 7-clause oracle on raw snapshots',
      text='A generated site model (worker with a two-port NIC, stitch switch with service and ports, patch links; second variant with '
           'a second worker, a facility and an inter-switch link) is annotated with every vector of per-element delegation choices over '
           '4 (8^4 = 4096 vectors) resp. 6 (3^6 quick, 6^6 thorough) delegable elements - none, label-only, capacity-only, both, a '
           'second id, mixed ids, two ids on one element, pool definition - and partitioned with generate_adms() on the in-memory '
           'backend. Every returned model is judged from raw store snapshots: delegated nodes present with exactly their own entries, no '
           'foreign entry anywhere, sub-model (ids, other properties, edges between kept nodes, nothing new), every kept interface '
           'keeps link, peer, owning service and its owner, all stitch nodes present, aggregate untouched, re-keying changes only the key.',
      note='Two fixed model shapes; extra kept nodes are allowed by the statement. Only the in-memory backend (as the property states).'),
 dict(property_id='C14', engine='E1-bfs', level='model_checking',
      technique='model checking: explicit-state BFS over merge/unmerge/snapshot/rollback histories, reference-union oracle in every state',
      text='Families of 2-4 generated delegation models (two sites with workers and a stitch switch, a network model joining the two '
           'sites over their shared uplink ports, a second network model on another shared uplink; each produced by generate_adms from a '
           'substrate model) are merged into and unmerged from a combined model in every order, with snapshot and rollback interleaved, '
           'to depth 6 (3 models, 7 thorough) / 4 (4 models, 8 thorough). The merge/unmerge functions are those of Neo4jCBMGraph, run '
           'on the in-memory shared store by composition. After every step the combined graph must equal the reference union of the '
           'currently merged set (nodes, contributor sets, delegations keyed by contributing model id, edges, other properties) - hence '
           'order-independence and merge/unmerge and snapshot/rollback inversion - every source model must be unchanged and no temporary '
           'graph or cross-graph edge may remain.',
      note='Trusted base: the class composition (one name substituted in the neo4j_cbm module namespace) and the reference union (~40 '
           'lines). Neo4j/APOC node-merge semantics are represented by the in-memory merge_nodes (C05). Domain restriction: one model '
           'speaks per shared element, other properties agree.'),
 dict(property_id='C19', engine='E4-env', level='exploration',
      technique='model checking: exhaustive enumeration of backend operations x value positions x adversarial values x environment answers at the driver boundary',
      text='57 public operations of the real Neo4j backend classes (property graph CRUD, bulk updates, queries, merge, diff, validation, '
           'clone, importer bookkeeping and imports, slice-model and combined-model queries, unmerge, snapshot/rollback, delegation '
           're-keying) run against a recording stand-in driver. For each operation: the baseline call, every value position set to each of '
           '12 adversarial strings (quotes, backslash, braces, doubled braces, dollar, newline, an injection string, a keyword, empty, '
           'non-ASCII) one position at a time and all jointly, under three environment answers for all calls and every single-call '
           'deviation. Every recorded (statement, parameters) pair (~22k per run) is judged: balanced brackets and quotes under Cypher '
           'string rules, no template residue, named parameters supplied, used variables bound; and the text may differ from the baseline '
           'only inside one string literal that de-escapes to the value. Violations are attributed to the statement-building call site.',
      note='Lexical judgement only (no Cypher parser or server in the sandbox). Eight open findings: call sites that splice stored '
           'values or the graph id into the statement text unescaped.'),
]
# what was added to each check after its first version (seed waves and triage of reported defects, DESIGN.md sections 8 and 10)
ADDED = {
 'C01': 'History oracle: the topology object that already holds the model loads its own text / file again (same id). File-based '
        'imports reuse a path that held another document before; files named after the other format (content decides).',
 'C02': 'Blob values whose encoding is exactly as long as the size limit; sub-interfaces under dedicated and trunk ports; results of '
        'reads are edited and read again (no aliasing); the type comes back as a member of the class\'s own vocabulary, also after '
        'another sliver class went through the same conversions before (every ordered pair of classes, forked process per case); the type '
        'of a live element through every spelling of write and read on a handle that was read before.',
 'C03': 'Unknown fields carry values of every JSON kind (string, number, negative, float, bool, null, list, object) at every position; '
        'decoding twice after editing the first result; finalized maintenance records and their entries; data blobs: decode, edit the result, use the blob again.',
 'C04': 'File-based direct import next to the string variant, and documents whose nodes name two graphs (must be refused by both); '
        'failing imports; allocator health is part of every canonical state; states are histories replayed on library-built stores; graph id and type '
        'rewrites as events; listings by class (and type) obey the same isolation as single reads; all file imports of a process go through one path; another importer constructed with a logger is an event.',
 'C05': 'Property bags, merge policies and id updates that contradict a node\'s identity (refused, or carried out with the identity '
        'kept); merge policies for properties only one node has and unknown policies; whole-graph NodeID, per-node GraphID, None for '
        'identity properties; agreement of the two backends on open queries; whole-graph update of the graph id (re-keying) on 4 shapes x '
        'target id free / in use x handle constructed / handed out by cast_graph.',
 'C06': 'Directed documents imported directly, re-import seen through an older handle, merge with a neighbour graph.',
 'C07': 'Refused calls are part of the alphabet (all failing variants of C09): what they leave behind is judged by the same rules. '
        'Full type-vocabulary sweep (every node, component and service type). Roots R3 (crafted names) and R4 (switch services that '
        'peer, a twin port name on a second switch service); links over service ports, the same interface twice, type rewrites to, from and between service port and sub-interface.',
 'C08': 'Undo through an older handle; a working copy next to an older model with the same element ids; root R4 (peerings of '
        'switch services, also next to a connection); stub links over one interface; disconnecting through the wrong service.',
 'C09': 'Interfaces argument that cannot be walked (number, failing generator); nested slivers at node creation; derived names '
        'that become too long; stale handles; links given as tuples whose returned handle is used; a new name among the values of a failing bulk update; None-valued entries that must be refused as a whole.',
 'C10': 'History groups: validated, emptied, re-connected elsewhere (declared site); created, listed and validated once, then changed '
        'through the creation handle (grown, shrunk, swapped, nodes relocated); two peered services; nodes made by add_switch / '
        'add_facility with the site taken away; same-named service ports; cases judged in a forked process after another slice used every service setter; sub-interfaces connected and removed at their parent.',
 'C11': 'A P4 switch among the nodes in every position (resource type); facilities on a site of their own, also with a service type '
        'that has no site limit; sizing by hints or none; decoy collectors used earlier in the process; mirror services with a bandwidth, requested '
        'bandwidths read from the description.',
 'C12': 'A pool called the empty string; detail fields set to an empty string / list; re-indexing after a change against a '
        'container built from scratch; decoding twice.',
 'C13': 'Delegations written on stitching elements; a second partitioning of the untouched model; loading another model into the '
        'topology object and partitioning again; parallel links and an isolated stitching node; a delegation that only refers to a pool; a view kept while the model grows partitions like a fresh view.',
 'C14': 'Families whose shared ports carry only one kind of delegation, and family F2x whose copies of a shared element differ in a '
        'plain property (reference: the copy that brought the element in); family F2o with an isolated stitching node present only in the '
        'delegated models; the union built twice through the same handle; family F2e (a model that only adds a connection between shared elements); two '
        'snapshots outstanding at a time; allocator health in the canonical state.',
 'C15': 'Signed operand vectors; augmented assignment on a second name for an operand; every non-zero field appears in the printout.',
 'C16': 'Labels edited attribute by attribute after construction and then put on an element / a sliver; labels, tags, delegations, pools and gateways edited through the update paths of an element; boot '
        'script boundary pinned (1023 accepted, 1024 rejected); blob sizes around the limit in four text forms; names through every decode '
        'path (from_dict, from_json, nested).',
 'C17': 'A SmartNIC described without its network service; equal user data in two spellings; user data read and scribbled on before '
        'the comparison, and changed by editing the decode of the old side (the reference reads the stored text).',
 'C18': 'One Labels object shared by all ports, label lists with empty entries and with repeated values (expectation from the raw values), caller objects left untouched; results of the instance catalogue edited by the '
        'caller; deviation bound 1 on the environment of the catalogue loaders (open fails, read fails, short read, then a retry).',
 'C19': 'Merge policy maps of size 0, 1 and 2; well-formedness also for the harmless variants; record contents as an environment answer; variants per node class; every ordered pair of operations on '
        'one driver object in a forked process (what the first leaves behind must not change the statements of the second).',
 'C20': 'Exception paths: for every operation of the lock model one execution per Python function entered while the lock is held, '
        'that entry failing (fimmc/faults.py). First use of a store by two threads (no instance yet). networkx.Graph.copy is scheduling-'
        'point code, so copies made outside a critical section are not atomic. Sequential allocation probes in every reached state. Scheduling-point code is chosen per harness; a third preemption '
        'is explored in the thorough tier where the second bound finished under a fixed number of executions (completed bound per harness '
        'in the evidence).',
}
for _c in CHECKS:
    if _c['property_id'] in ADDED:
        _c['text'] = _c['text'] + ' Added later: ' + ADDED[_c['property_id']]
_claimed = {c['property_id'] for c in CHECKS}
NOT_APPLICABLE = [dict(property_id=p, reason='check not built yet in this revision (work in progress; model checking applies, see DESIGN.md)')
                  for p in ALL if p not in _claimed]
