HOOK_COMMITS = []
ALL = ['C%02d' % i for i in range(1, 21)]
CHECKS = [
 dict(property_id='C15', engine='E2-enum', level='exploration',
      technique='model checking: bounded-exhaustive enumeration of operand pairs/triples on the real operators',
      text='Every ordered pair (and a cube of triples) of structured capacity vectors over all eight fields is run through the real '
           '+, -, <, >, ==, negative_fields, FreeCapacity and the printers; each law is checked on the raw field dictionaries. '
           'Exhaustive within the stated vector set, which is built so that every field carries a distinct value (cross-wiring) '
           'and zero/large values occur in every position.',
      note='Values outside the vector set (other magnitudes) are not covered; oracle reads instance __dict__ directly.'),
]
_claimed = {c['property_id'] for c in CHECKS}
NOT_APPLICABLE = [dict(property_id=p, reason='check not built yet in this revision (work in progress; model checking applies, see DESIGN.md)')
                  for p in ALL if p not in _claimed]
