#!/usr/bin/env python3
"""bounds_table.py <quick evidence dir> <thorough evidence dir> - markdown table of measured coverage and wall time per check"""
import json, os, sys
q, t = sys.argv[1], sys.argv[2]


def summ(path):
    if not os.path.exists(path):
        return 'n/a'
    e = json.load(open(path))
    c = e['coverage']
    parts = []
    if c.get('states'):
        parts.append(f"{c['states']:,} states / {c.get('transitions', 0):,} transitions")
    if c.get('evaluations'):
        parts.append(f"{c['evaluations']:,} cases")
    g = c.get('groups', {})
    sch = g.get('schedules', {})
    if sch.get('schedules_explored'):
        parts.append(f"{sch['schedules_explored']:,} schedules")
    fp = g.get('fault-paths', {})
    if fp.get('injected_failures'):
        parts.append(f"{fp['injected_failures']:,} injected failures")
    depth = {k: v.get('depth_completed') for k, v in g.items() if v.get('depth_completed') is not None}
    if depth:
        parts.append('depth ' + ', '.join(f'{k}:{v}' for k, v in sorted(depth.items())))
    return '; '.join(parts) + f"; {e['wall_s']:.0f} s"


print('| id | quick | thorough |\n|---|---|---|')
for i in range(1, 21):
    pid = f'C{i:02d}'
    print(f'| {pid} | {summ(os.path.join(q, pid + ".json"))} | {summ(os.path.join(t, pid + ".json"))} |')
