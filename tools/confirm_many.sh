#!/bin/bash
# usage: confirm_many.sh "<seed> <PID...>" ...   sequential confirmations, logs in /tmp/confirm_<seed>.log
for spec in "$@"; do set -- $spec; s=$1; shift; python3 /verif/tools/confirm_seed.py /tmp/seed_$s $s "$@" > /tmp/confirm_$s.log 2>&1; echo "$s exit=$?" >> /tmp/confirm_summary.log; done
