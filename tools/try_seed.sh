#!/bin/bash
# usage: try_seed.sh <seedid> <PID> [PID...]  - rebase /tmp/seed_<id>/patch.diff onto /repo HEAD if needed, run quick checks, revert
S=$1; shift
cd /repo || exit 3
[ -n "$(git status --porcelain --untracked-files=no)" ] && { echo "/repo not clean"; exit 3; }
trap 'git -C /repo reset -q --hard HEAD; find /repo -name __pycache__ -prune -exec rm -rf {} + 2>/dev/null' EXIT
if ! git apply /tmp/seed_$S/patch.diff 2>/dev/null; then
  git apply -3 /tmp/seed_$S/patch.diff >/dev/null 2>&1 || { echo "$S: patch does not apply"; exit 3; }
  git diff HEAD > /tmp/seed_$S/patch.diff; echo "$S: rebased"
fi
for PID in "$@"; do
  out=$(cd /verif && FIMMC_EVIDENCE_DIR=/tmp/ev_try FIMMC_REPLAY_DIR=/tmp/rp_try PYTHONHASHSEED=0 /venv/bin/python -m fimmc.run $PID --tier quick 2>&1)
  rc=$?
  echo "$S vs $PID: rc=$rc $(echo "$out" | grep -A1 '^VIOLATION' | grep fingerprint | head -3 | tr '\n' ' ' | cut -c1-300)"
done
