#!/bin/bash
# run the repository's pinned suite on /repo (or $1) and report how many of the 77 baseline tests still pass
D=${1:-/repo}
cd $D && /venv/bin/python -m pytest -q -p no:cacheprovider --timeout=900 --continue-on-collection-errors --junitxml=/tmp/junit_$$.xml >/tmp/pytest_$$.log 2>&1
tail -1 /tmp/pytest_$$.log
python3 - /tmp/junit_$$.xml <<'PY'
import json, sys, xml.etree.ElementTree as ET
b=json.load(open('/root/.vp/BASELINE.json')); stable=set(b['stable_pass']); ok=set()
for tc in ET.parse(sys.argv[1]).getroot().iter('testcase'):
    if not any(c.tag in ('failure','error','skipped') for c in tc):
        ok.add(f"{tc.get('classname')}::{tc.get('name')}")
print('baseline passing:', len(stable & ok), 'missing:', sorted(stable-ok))
PY
rm -f /tmp/junit_$$.xml /tmp/pytest_$$.log
find $D -name __pycache__ -prune -exec rm -rf {} + 2>/dev/null
