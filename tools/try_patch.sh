#!/bin/bash
# usage: try_patch.sh <patch.diff> <PID> [tier]   - apply a patch to /repo, run the check, always revert
set -u
P="$1"; PID="$2"; TIER="${3:-quick}"
cd /repo || exit 3
if [ -n "$(git status --porcelain --untracked-files=no)" ]; then echo "/repo not clean"; exit 3; fi
trap 'git -C /repo checkout -- . ; find /repo -name __pycache__ -prune -exec rm -rf {} + 2>/dev/null' EXIT
git apply "$P" || { echo "patch does not apply"; exit 3; }
cd /verif && PYTHONHASHSEED=0 /venv/bin/python -m fimmc.run "$PID" --tier "$TIER"
echo "rc=$?"
