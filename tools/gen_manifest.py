#!/usr/bin/env python3
"""Regenerates MANIFEST.json from tools/manifest_src.py (single source of truth for per-check texts)."""
import json, os, sys
sys.path.insert(0, os.path.dirname(__file__))
from manifest_src import CHECKS, NOT_APPLICABLE, HOOK_COMMITS
ROOT = os.path.dirname(os.path.dirname(os.path.abspath(__file__)))
RUN = 'PYTHONHASHSEED=0 /venv/bin/python -m fimmc.run'
m = {
    'version': 1,
    'setup_cmd': 'mkdir -p /verif/evidence /verif/replays && /venv/bin/python -c "import fim, networkx, fimmc.engine"',
    'hooks': {
        'guard': 'FABRIC_TESTBED_INFORMATIONMODEL_VERIF',
        'enable': 'no source hooks are needed: fabric_fim is installed editable from /repo, every check imports the '
                  'current working tree and reaches its seams from outside (attribute substitution of storage.lock, '
                  'sys.monitoring local events, a stand-in Neo4j driver object, uuid.uuid4 substitution)',
        'baseline_off_cmd': 'cd /repo && /venv/bin/python -m pytest -ra -q -p no:cacheprovider --timeout=900 '
                            '--continue-on-collection-errors',
        'source_commits': HOOK_COMMITS,
        'add_only': True,
    },
    'engines': [
        {'name': 'E1-bfs', 'path': 'fimmc/engine.py', 'kind_free_text': 'explicit-state BFS over the real API with store snapshot/restore, canonical-state dedup, forked workers',
         'serves_properties': [c['property_id'] for c in CHECKS if 'E1' in c['engine']]},
        {'name': 'E2-enum', 'path': 'fimmc/engine.py', 'kind_free_text': 'bounded-exhaustive enumeration of finite input spaces against independent oracles',
         'serves_properties': [c['property_id'] for c in CHECKS if 'E2' in c['engine']]},
        {'name': 'E3-sched', 'path': 'fimmc/sched.py', 'kind_free_text': 'stateless preemption-bounded schedule exploration of real threads (sys.monitoring INSTRUCTION points, cooperative baton)',
         'serves_properties': [c['property_id'] for c in CHECKS if 'E3' in c['engine']]},
        {'name': 'E4-env', 'path': 'fimmc/envdrv.py', 'kind_free_text': 'environment-answer enumeration at the Neo4j driver boundary with a recording stand-in driver',
         'serves_properties': [c['property_id'] for c in CHECKS if 'E4' in c['engine']]},
    ],
    'checks': [],
    'not_applicable': NOT_APPLICABLE,
    'notes': 'All checks run the implementation itself (no separate model to keep in sync). See DESIGN.md.',
}
for c in CHECKS:
    pid = c['property_id']
    m['checks'].append({
        'property_id': pid,
        'quick_cmd': f'cd /verif && {RUN} {pid} --tier quick',
        'thorough_cmd': f'cd /verif && {RUN} {pid} --tier thorough',
        'evidence_file': f'/verif/evidence/{pid}.json',
        'replay_cmd_template': f'cd /verif && {RUN} {pid} --replay {{path}}',
        'engine': c['engine'],
        'level_claimed': {'category': c['level'], 'text': c['text'], 'design_ref': f'DESIGN.md section 2, {pid}'},
        'level_note': c['note'],
        'technique': c['technique'],
    })
json.dump(m, open(os.path.join(ROOT, 'MANIFEST.json'), 'w'), indent=1)
print('checks:', [c['property_id'] for c in CHECKS], 'n/a:', [n['property_id'] for n in NOT_APPLICABLE])
