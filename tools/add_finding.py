#!/usr/bin/env python3
"""add_finding.py <property> <status fixed|open> <fingerprint> <commit|-> <what> <line-tail>  - append an entry to known_findings.json"""
import json, sys
prop, status, fp, commit, what, tail = sys.argv[1:7]
d = json.load(open('/verif/known_findings.json'))
e = {'property': prop, 'status': status, 'fingerprint': fp}
if status == 'fixed':
    e['commit'] = commit
    e['what'] = what
    e['line'] = f'fixed: property={prop} {commit} {tail}'
else:
    e['what'] = what
    e['line'] = f'KNOWN-FINDING: property={prop} {tail}'
d['findings'].append(e)
json.dump(d, open('/verif/known_findings.json', 'w'), indent=1)
print(len(d['findings']))
