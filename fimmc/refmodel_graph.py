"""Reference model of the documented property-graph interface (ABCPropertyGraph docstrings + README).

Deliberately boring: a dict of nodes keyed (GraphID, NodeID) and a dict of undirected single edges keyed by the
frozenset of their end keys. Each operation returns
    ('ok', value)    the call must succeed (value = expected return, or None)
    ('raise',)       the call must raise
    ('either',)      the interface does not say; the state must stay unchanged and the two backends must agree
and applies the state change when the call succeeds.
"""
import copy

IDENT = ('GraphID', 'NodeID', 'Type', 'Class', 'Name')      # NO_UNSET_PROPERTIES as documented


class RefWorld:
    def __init__(self):
        self.nodes = {}
        self.edges = {}

    def clone(self):
        return copy.deepcopy(self)

    # ------------------------------------------------------------------ helpers
    def ids(self, gid):
        return [k[1] for k in self.nodes if k[0] == gid]

    def has(self, gid, nid):
        return (gid, nid) in self.nodes

    def edge_key(self, gid, a, b):
        return frozenset(((gid, a), (gid, b)))

    def canon(self):
        from .canon import props_canon
        nodes = tuple(sorted(((k, props_canon(d)) for k, d in self.nodes.items()), key=repr))
        edges = tuple(sorted(((tuple(sorted(k)), props_canon(d)) for k, d in self.edges.items()), key=repr))
        return nodes, edges

    # ------------------------------------------------------------------ mutating operations
    def add_node(self, gid, nid, label, props):
        if self.has(gid, nid):
            return ('raise',)          # a node id is unique within its graph whatever the node's class
        d = {'GraphID': gid, 'NodeID': nid, 'Class': label}
        if props:
            d.update(props)
        self.nodes[(gid, nid)] = d
        return ('ok', None)

    def delete_node(self, gid, nid):
        if not self.has(gid, nid):
            return ('raise',)
        del self.nodes[(gid, nid)]
        for k in [k for k in self.edges if (gid, nid) in k]:
            del self.edges[k]
        return ('ok', None)

    def add_link(self, gid, a, rel, b, props):
        if not self.has(gid, a) or not self.has(gid, b):
            return ('raise',)
        d = {'Class': rel}
        if props:
            d.update(props)
        self.edges[self.edge_key(gid, a, b)] = d
        return ('ok', None)

    def update_node_property(self, gid, nid, name, val):
        if name == 'Class':
            return ('raise',)          # the class can never be changed through the API
        if not self.has(gid, nid):
            return ('raise',)
        self.nodes[(gid, nid)][name] = val
        return ('ok', None)

    def unset_node_property(self, gid, nid, name):
        if name in IDENT:
            return ('raise',)
        if not self.has(gid, nid):
            return ('raise',)
        if name not in self.nodes[(gid, nid)]:
            return ('either',)         # unsetting what was never set: raise or no-op, not specified
        del self.nodes[(gid, nid)][name]
        return ('ok', None)

    def update_node_properties(self, gid, nid, props):
        if 'Class' in props:
            return ('raise',)
        if not self.has(gid, nid):
            return ('raise',)
        self.nodes[(gid, nid)].update(props)
        return ('ok', None)

    def update_nodes_property(self, gid, name, val):
        if name == 'Class':
            return ('raise',)
        if not self.ids(gid):
            return ('either',)
        for k, d in self.nodes.items():
            if k[0] == gid:
                d[name] = val
        return ('ok', None)

    def _edge(self, gid, a, b, kind):
        if not self.has(gid, a) or not self.has(gid, b):
            return None
        e = self.edges.get(self.edge_key(gid, a, b))
        if e is None or e.get('Class') != kind:
            return None
        return e

    def update_link_property(self, gid, a, b, kind, name, val):
        e = self._edge(gid, a, b, kind)
        if name == 'Class' or e is None:
            return ('raise',)
        e[name] = val
        return ('ok', None)

    def unset_link_property(self, gid, a, b, kind, name):
        e = self._edge(gid, a, b, kind)
        if name == 'Class' or e is None:
            return ('raise',)
        e.pop(name, None)
        return ('ok', None)

    def update_link_properties(self, gid, a, b, kind, props):
        e = self._edge(gid, a, b, kind)
        if 'Class' in props or e is None:
            return ('raise',)
        e.update(props)
        return ('ok', None)

    def delete_graph(self, gid):
        for k in [k for k in self.nodes if k[0] == gid]:
            self.delete_node(*k)
        return ('ok', None)

    def merge_nodes(self, gid, nid, other, policy):
        """policy: None or {prop: 'discard'|'overwrite'|'combine'} restricted (by the caller) to props present on both"""
        me, ot = (gid, nid), (other, nid)
        if me not in self.nodes or ot not in self.nodes:
            return ('raise',)
        mp, op = self.nodes[me], self.nodes[ot]
        for k in [k for k in self.edges if ot in k]:
            d = self.edges.pop(k)
            rest = [x for x in k if x != ot]
            if not rest:
                continue
            nk = frozenset((me, rest[0]))
            if nk not in self.edges:
                self.edges[nk] = d       # every edge of both nodes is kept
        new = dict(mp)
        for p, how in (policy or {}).items():
            if p in mp and p in op and p not in ('GraphID', 'NodeID', 'Class') and how in ('discard', 'overwrite', 'combine'):
                new[p] = mp[p] if how == 'discard' else op[p] if how == 'overwrite' else [mp[p], op[p]]
        self.nodes[me] = new
        del self.nodes[ot]
        return ('ok', None)

    # ------------------------------------------------------------------ queries
    def q_node_props(self, gid, nid):
        if not self.has(gid, nid):
            return ('raise',)
        d = dict(self.nodes[(gid, nid)])
        cls = d.pop('Class')
        return ('ok', ([cls], d))

    def q_link_props(self, gid, a, b):
        if not self.has(gid, a) or not self.has(gid, b):
            return ('raise',)
        e = self.edges.get(self.edge_key(gid, a, b))
        if e is None:
            return ('raise',)
        d = dict(e)
        kind = d.pop('Class')
        return ('ok', (kind, d))

    def q_ids(self, gid):
        ids = self.ids(gid)
        if not ids:
            return ('either',)
        return ('ok', sorted(ids))

    def q_by_class(self, gid, cls):
        return ('ok', sorted(k[1] for k, d in self.nodes.items() if k[0] == gid and d.get('Class') == cls))

    def q_by_class_type(self, gid, cls, t):
        return ('ok', sorted(k[1] for k, d in self.nodes.items()
                             if k[0] == gid and d.get('Class') == cls and d.get('Type') == t))

    def q_node_exists(self, gid, nid, cls):
        return ('ok', self.has(gid, nid) and self.nodes[(gid, nid)].get('Class') == cls)

    def q_unique(self, gid, cls, name):
        return ('ok', not any(k[0] == gid and d.get('Class') == cls and d.get('Name') == name
                              for k, d in self.nodes.items()))

    def q_graph_exists(self, gid):
        return ('ok', bool(self.ids(gid)))

    def q_matching(self, gid, other):
        return ('ok', sorted(set(self.ids(gid)) & set(self.ids(other))))
