"""E4 - stand-in Neo4j driver: records every (statement, parameters) pair handed to session.run and lets the harness
choose the environment's answer (a record that satisfies the caller / no record / empty result)."""
import logging

from fim.graph.neo4j_property_graph import Neo4jGraphImporter


# what the "database" holds: the node id it reports back and the model that contributed the node (set by the harness)
ANSWER = {'node': 'n1', 'adm': 'a1'}


def _defaults():
    import json as _json
    t = ANSWER['node']
    return {
        'nodeids': [t], 'labels(n)': ['GraphNode', 'NetworkNode'],
        'properties(n)': {'GraphID': 'g', 'NodeID': t, 'Class': 'NetworkNode', 'Name': 'nm', 'Type': 'VM',
                          'StructuralInfo': _json.dumps({'adm_graph_ids': [ANSWER['adm']]})},
        'type(r)': 'has', 'properties(r)': {'Class': 'has'}, 'common_ids': [t], 'candidate_ids': [t],
        'AnotB': [], 'BnotA': [], 'nodes': [], 'nodes1': [],
    }


class _Dict(dict):
    """record payload answering any key the calling code might ask for"""

    def __missing__(self, key):
        return _defaults().get(key, 'x')

    def get(self, key, default=None):
        return self[key]


class Record:
    def data(self):
        return _Dict({'nodeids': [ANSWER['node']]})

    def value(self, *a):
        return ['S1', 'S2']

    def values(self):
        return [['a', 'b']]

    def get(self, key, default=None):
        return 'None' if key == 'data' else 'x'

    def __getitem__(self, key):
        return [ANSWER['node'], 'n2']


class Result:
    def __init__(self, mode):
        self.mode = mode

    def single(self):
        return Record() if self.mode == 'rich' else None

    def peek(self):
        return Record() if self.mode == 'rich' else None

    def value(self, *a):
        return ['v'] if self.mode == 'rich' else []

    def values(self):
        return [['a', 'b']] if self.mode == 'rich' else []

    def data(self):
        return [_Dict()] if self.mode == 'rich' else []

    def __iter__(self):
        return iter([Record()] if self.mode == 'rich' else [])


class Session:
    def __init__(self, drv):
        self.drv = drv

    def __enter__(self):
        return self

    def __exit__(self, *a):
        return False

    def run(self, statement, *args, **params):
        d = self.drv
        if args:
            params = dict(args[0], **params) if isinstance(args[0], dict) else params
        idx = len(d.calls)
        # the statement builder = innermost library frame on the stack
        import sys
        f = sys._getframe(1)
        site = '?'
        while f is not None:
            fn = f.f_code.co_filename
            if '/fim/' in fn and 'fimmc' not in fn:
                slf = f.f_locals.get('self')
                owner = None
                if slf is not None:
                    for k in type(slf).__mro__:
                        if f.f_code.co_name in k.__dict__:
                            owner = k.__name__
                            break
                site = f'{owner or fn.rsplit("/", 1)[-1]}.{f.f_code.co_name}'
                break
            f = f.f_back
        d.calls.append((statement, dict(params), site))
        mode = d.deviate.get(idx, d.default_mode)
        if mode == 'raise':
            raise RuntimeError('injected driver fault (transient database error)')
        return Result(mode)


class Driver:
    def __init__(self):
        self.calls = []
        self.default_mode = 'rich'
        self.deviate = {}

    def session(self, **kw):
        return Session(self)

    def close(self):
        pass

    def verify_connectivity(self):
        pass


class _NoSleep:
    """the retry loops of the importer sleep between attempts; the harness owns that clock"""
    def __getattr__(self, name):
        import time
        return (lambda *a, **k: None) if name == 'sleep' else getattr(time, name)


import fim.graph.neo4j_property_graph as _npg
_npg.time = _NoSleep()


def make_importer(tmpdir):
    imp = Neo4jGraphImporter.__new__(Neo4jGraphImporter)
    imp.driver = Driver()
    imp.log = logging.getLogger('fimmc-neo4j')
    imp.url = imp.user = imp.pswd = 'x'
    imp.import_host_dir = tmpdir
    imp.import_dir = tmpdir
    return imp
