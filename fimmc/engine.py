"""Exploration engines.

E2  explore_cases : bounded-exhaustive enumeration of a finite case space, every case evaluated on the real code
E1  bfs           : explicit-state breadth-first search over the real API with snapshot/restore

Both fan work out over forked worker processes (fork once per call; never per execution) and aggregate into a
Report that the runner turns into evidence, replay files and the exit status.
"""
import os
import sys
import time
import random
import traceback
import multiprocessing as mp
from collections import Counter

from .canon import digest, jsonable

WORKERS = max(1, min(14, (os.cpu_count() or 2) - 2))


class Report:
    def __init__(self, pid, tier, seed):
        self.pid = pid
        self.tier = tier
        self.seed = seed
        self.rng = random.Random(seed)
        self.violations = {}      # fingerprint -> dict(fp,msg,group,case,count)
        self.groups = {}          # group -> coverage dict
        self.notes = []
        self.assumptions = []
        self.t0 = time.time()
        self.vacuity_failures = []
        self.internal_errors = []

    # ---------------------------------------------------------------- violations
    def violation(self, fp, msg, group, case):
        v = self.violations.get(fp)
        if v is None:
            self.violations[fp] = dict(fp=fp, msg=msg, group=group, case=case, count=1)
        else:
            v['count'] += 1
            # prefer the smallest case as representative
            if _size(case) < _size(v['case']):
                v['case'] = case
                v['msg'] = msg
                v['group'] = group

    def require(self, cond, what):
        """vacuity guard: the exploration must have exercised `what`; failing is an internal error (exit 2)"""
        if not cond:
            self.vacuity_failures.append(what)

    def note(self, s):
        self.notes.append(s)


def _size(case):
    try:
        return len(repr(case))
    except Exception:
        return 1 << 30


# ------------------------------------------------------------------------------------------------
# E2
# ------------------------------------------------------------------------------------------------
_FUNCS = {}


def _eval_chunk(args):
    key, chunk = args
    fn = _FUNCS[key]
    out = []
    for case in chunk:
        try:
            r = fn(case)
        except Exception as e:  # harness error - never a violation
            r = {'err': f'{type(e).__name__}: {e}\n{traceback.format_exc(limit=6)}'}
        out.append(r)
    return out


def _chunks(seq, n):
    buf = []
    for x in seq:
        buf.append(x)
        if len(buf) >= n:
            yield buf
            buf = []
    if buf:
        yield buf


def explore_cases(report: Report, group: str, fn, cases, chunk=32, workers=None, rule='', nsamples=3,
                  exhaustive=True, space=''):
    """Evaluate fn(case) for every case. fn returns a dict:
         v   : list of (fingerprint, message)   violations
         nt  : hashable/None                     key of the case if it exercised the property non-vacuously
         out : str                               outcome label (for the distinct-outcomes vacuity statistic)
         tags: iterable of str                   coverage tags hit by the case (for vacuity guards)
    cases must be JSON-able (they are written verbatim into replay files)."""
    key = f'{report.pid}:{group}'
    _FUNCS[key] = fn
    workers = workers or WORKERS
    cases = list(cases)
    order = list(range(len(cases)))
    report.rng.shuffle(order)          # VERIF_SEED only permutes traversal order
    cases_shuffled = [cases[i] for i in order]
    nt = set()
    outs = Counter()
    tags = Counter()
    counts = Counter()
    n = 0
    samples = [jsonable(c) for c in cases_shuffled[:nsamples]]
    jobs = [(key, ch) for ch in _chunks(cases_shuffled, chunk)]
    if workers > 1 and len(jobs) > 1:
        with mp.get_context('fork').Pool(workers) as pool:
            results = pool.imap(_eval_chunk, jobs)
            results = list(results)
    else:
        results = [_eval_chunk(j) for j in jobs]
    for (k, ch), res in zip(jobs, results):
        for case, r in zip(ch, res):
            n += 1
            if 'err' in r:
                report.internal_errors.append((group, jsonable(case), r['err']))
                continue
            for fp, msg in r.get('v', ()):
                report.violation(fp, msg, group, case)
            if r.get('nt') is not None:
                nt.add(digest(r['nt']))
            outs[r.get('out', '')] += 1
            for t in r.get('tags', ()):
                tags[t] += 1
            for k2, n2 in (r.get('counts') or {}).items():
                counts[k2] += n2
    g = report.groups.setdefault(group, dict(kind='E2', evaluations=0, distinct_nontrivial=0, outcomes={},
                                             tags={}, samples=[], rule=rule, exhaustive=exhaustive, space=space))
    g['evaluations'] += n
    g['distinct_nontrivial'] += len(nt)
    for k2, v2 in outs.items():
        g['outcomes'][k2] = g['outcomes'].get(k2, 0) + v2
    for k2, v2 in tags.items():
        g['tags'][k2] = g['tags'].get(k2, 0) + v2
    g['samples'].extend(samples)
    for k2, v2 in counts.items():
        g.setdefault('counts', {})
        g['counts'][k2] = g['counts'].get(k2, 0) + v2
    return g


# ------------------------------------------------------------------------------------------------
# E1
# ------------------------------------------------------------------------------------------------
class Model:
    """Interface a check implements for explicit-state search over the real code."""
    name = 'model'

    def roots(self):
        return ['empty']

    def build_root(self, root):
        raise NotImplementedError

    def snapshot(self):
        raise NotImplementedError

    def restore(self, snap):
        raise NotImplementedError

    def observe(self):
        """whatever check() needs about the pre-state"""
        return None

    def events(self):
        """JSON-able events enabled in the current state"""
        raise NotImplementedError

    def apply(self, ev):
        """execute the event on the real code; returns an outcome (JSON-able, e.g. ('ok', value) / ('raise', cls))"""
        raise NotImplementedError

    def check(self, pre, ev, outcome):
        """step oracle, evaluated in the post-state; returns list of (fingerprint, message)"""
        return []

    def invariant(self):
        """state invariant, evaluated in the post-state; returns list of (fingerprint, message)"""
        return []

    def canon(self):
        """hashable canonical form of the current state (dedup key)"""
        raise NotImplementedError

    def outcome_label(self, ev, outcome):
        kind = ev[0] if isinstance(ev, (list, tuple)) and ev else str(ev)
        o = outcome[0] if isinstance(outcome, (list, tuple)) and outcome else str(outcome)
        return f'{kind}:{o}'

    def prune(self, ev, outcome):
        """return True when the post state should not be expanded further"""
        return False


_MODELS = {}


def _expand_chunk(args):
    key, items = args
    model = _MODELS[key]
    out = []
    for root, hist, snap in items:
        try:
            model.restore(snap)
            pre = model.observe()
            evs = list(model.events())
            res = []
            for ev in evs:
                model.restore(snap)
                outcome = model.apply(ev)
                viols = list(model.check(pre, ev, outcome)) + list(model.invariant())
                c = digest(model.canon())
                s2 = None if model.prune(ev, outcome) else model.snapshot()
                res.append((ev, model.outcome_label(ev, outcome), viols, c, s2))
            out.append((root, hist, res, None))
        except Exception as e:
            out.append((root, hist, [], f'{type(e).__name__}: {e}\n{traceback.format_exc(limit=8)}'))
    return out


def bfs(report: Report, group: str, model: Model, depth: int, chunk=8, workers=None, max_seconds=None,
        rule='', nsamples=3):
    key = f'{report.pid}:{group}'
    _MODELS[key] = model
    workers = workers or WORKERS
    t0 = time.time()
    seen = set()
    frontier = []
    roots = list(model.roots())
    for r in roots:
        model.build_root(r)
        for fp, msg in model.invariant():
            report.violation(fp, msg, group, {'root': r, 'events': []})
        c = digest(model.canon())
        if c not in seen:
            seen.add(c)
            if not model.prune(('root', r), ('ok',)):      # a root that is already judged broken is reported, not expanded
                frontier.append((r, [], model.snapshot()))
    transitions = 0
    outs = Counter()
    depth_completed = 0
    partial = None
    samples = []
    level_sizes = [len(frontier)]
    for d in range(1, depth + 1):
        if not frontier:
            depth_completed = depth       # state space closed before the bound
            break
        report.rng.shuffle(frontier)
        jobs = [(key, ch) for ch in _chunks(frontier, chunk)]
        nxt = []
        done_states = 0
        timed_out = False
        pool = mp.get_context('fork').Pool(workers) if workers > 1 and len(jobs) > 1 else None
        try:
            it = pool.imap_unordered(_expand_chunk, jobs) if pool else map(_expand_chunk, jobs)
            for res in it:
                for root, hist, lst, err in res:
                    done_states += 1
                    if err:
                        report.internal_errors.append((group, {'root': root, 'events': jsonable(hist)}, err))
                        continue
                    for ev, label, viols, c, s2 in lst:
                        transitions += 1
                        outs[label] += 1
                        h2 = hist + [ev]
                        for fp, msg in viols:
                            report.violation(fp, msg, group, {'root': root, 'events': jsonable(h2)})
                        if c not in seen:
                            seen.add(c)
                            if s2 is not None:
                                nxt.append((root, h2, s2))
                            if len(samples) < nsamples and len(h2) == d:
                                samples.append({'root': root, 'events': jsonable(h2)})
                if max_seconds and time.time() - t0 > max_seconds:
                    timed_out = True
                    break
        finally:
            if pool:
                pool.terminate()
                pool.join()
        if timed_out:
            partial = dict(level=d, states_expanded=done_states, of=len(frontier))
            break
        depth_completed = d
        frontier = nxt
        level_sizes.append(len(nxt))
    g = report.groups.setdefault(group, dict(kind='E1', states=0, transitions=0, outcomes={}, samples=[],
                                             rule=rule))
    g['states'] += len(seen)
    g['transitions'] += transitions
    g['depth_bound'] = depth
    g['depth_completed'] = depth_completed
    g['partial_next_level'] = partial
    g['roots'] = roots
    g['level_sizes'] = level_sizes
    for k2, v2 in outs.items():
        g['outcomes'][k2] = g['outcomes'].get(k2, 0) + v2
    g['samples'].extend(samples)
    return g


def replay_e1(model: Model, case):
    """plain sequential replay of one history, no explorer: returns list of (fp,msg) seen at any step"""
    model.build_root(case['root'])
    found = list(model.invariant())
    for ev in case['events']:
        ev = _tuplify(ev)
        pre = model.observe()
        outcome = model.apply(ev)
        found += list(model.check(pre, ev, outcome)) + list(model.invariant())
    return found


def _tuplify(x):
    if isinstance(x, list):
        return tuple(_tuplify(y) for y in x)
    return x
