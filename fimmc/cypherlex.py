"""A small purpose-built lexical checker for the Cypher statements the library builds (no server, no parser available).

Conservative: only forms it understands are judged.
  well_formed(text, params) -> list of (clause, message)
  mask(text)                -> text with every string literal replaced by a placeholder, plus the list of de-escaped literals
"""
import re

ESC = {'n': '\n', 't': '\t', 'r': '\r', 'b': '\b', 'f': '\f', '\\': '\\', "'": "'", '"': '"', '0': '\0'}


class LexError(Exception):
    pass


def scan(text):
    """yields ('str', start, end, value) for literals, ('bt', ...) for backtick identifiers, ('code', start, end, chunk)"""
    i, n = 0, len(text)
    out = []
    start = 0
    while i < n:
        c = text[i]
        if c in '\'"':
            if start < i:
                out.append(('code', start, i, text[start:i]))
            q = c
            j = i + 1
            val = []
            while True:
                if j >= n:
                    raise LexError(f'unterminated string literal starting at offset {i}: {text[i:i + 40]!r}')
                d = text[j]
                if d == '\\':
                    if j + 1 >= n:
                        raise LexError('dangling backslash at end of statement')
                    e = text[j + 1]
                    if e == 'u' and j + 5 < n:
                        try:
                            val.append(chr(int(text[j + 2:j + 6], 16)))
                            j += 6
                            continue
                        except ValueError:
                            raise LexError('bad \\u escape')
                    if e not in ESC:
                        raise LexError(f'invalid escape sequence \\{e} in string literal')
                    val.append(ESC[e])
                    j += 2
                    continue
                if d == q:
                    break
                val.append(d)
                j += 1
            out.append(('str', i, j + 1, ''.join(val)))
            i = j + 1
            start = i
            continue
        if c == '`':
            j = text.find('`', i + 1)
            if j < 0:
                raise LexError('unterminated backtick identifier')
            if start < i:
                out.append(('code', start, i, text[start:i]))
            out.append(('bt', i, j + 1, text[i + 1:j]))
            i = j + 1
            start = i
            continue
        if c == '/' and i + 1 < n and text[i + 1] == '/':
            raise LexError(f'comment marker outside a string literal at offset {i}')
        i += 1
    if start < n:
        out.append(('code', start, n, text[start:]))
    return out


def mask(text):
    parts = scan(text)
    lits = [p[3] for p in parts if p[0] == 'str']
    masked = ''.join(p[3] if p[0] == 'code' else ('§S§' if p[0] == 'str' else '§B§') for p in parts)
    return masked, lits


KEYWORDS = {'match', 'optional', 'return', 'with', 'where', 'set', 'remove', 'call', 'yield', 'as', 'in', 'and', 'or', 'not', 'is',
            'null', 'true', 'false', 'unwind', 'detach', 'delete', 'distinct', 'union', 'all', 'collect', 'size', 'head', 'nodes',
            'relationships', 'properties', 'labels', 'type', 'id', 'count', 'shortestpath', 'apoc', 'create', 'merge'}
FUNCS_ON_VAR = ('properties', 'labels', 'type', 'nodes', 'relationships', 'id')


def well_formed(text, params):
    v = []
    try:
        masked, lits = mask(text)
    except LexError as e:
        return [('lexical', str(e))]
    # balanced brackets
    stack = []
    pairs = {')': '(', ']': '[', '}': '{'}
    for i, c in enumerate(masked):
        if c in '([{':
            stack.append((c, i))
        elif c in ')]}':
            if not stack or stack[-1][0] != pairs[c]:
                v.append(('unbalanced', f'unexpected {c!r} at offset {i}: ...{masked[max(0, i - 30):i + 10]}'))
                stack = None
                break
            stack.pop()
    if stack:
        c, i = stack[-1]
        v.append(('unbalanced', f'unclosed {c!r} opened at offset {i}: {masked[i:i + 50]}...'))
    # python template residue
    if re.search(r'\{\s*\{', masked) or re.search(r'\}\s*\}\s*\)', masked) and '{{' in masked:
        v.append(('template-residue', 'doubled braces reached the driver (unexpanded f-string template)'))
    for m in re.finditer(r'\{\s*([A-Za-z_]\w*)\s*\}', masked):
        v.append(('template-residue', f'unexpanded placeholder {m.group(0)!r}'))
    # a Python value rendered into the text by an f-string (Cypher spells these null / true / false)
    for m in re.finditer(r'(?<![\w$.:])(None|True|False)(?=[A-Z\W]|$)', masked):
        v.append(('python-repr-in-statement', f'{m.group(1)!r} (the text form of a Python value) at offset {m.start()}: ...{masked[max(0, m.start() - 30):m.start() + 20]}'))
        break
    # parameters
    named = set(re.findall(r'\$([A-Za-z_]\w*)', masked))
    missing = sorted(named - set(params))
    if missing:
        v.append(('parameter-not-supplied', f'statement names ${", $".join(missing)} but the call supplies {sorted(params)}'))
    # variables
    low = masked
    bound = set()
    for m in re.finditer(r'([\w.]*)\(\s*([A-Za-z_]\w*)\s*(?=[:){\s])', low):
        # node patterns - "(x:Label ...", also directly after a keyword as in "MATCH(n ..." - but not function-call parentheses
        if m.group(1) == '' or m.group(1).lower() in ('match', 'where', 'and', 'or', 'not', 'with', 'exists', 'merge', 'create'):
            bound.add(m.group(2))
    for m in re.finditer(r'\[\s*([A-Za-z_]\w*)\s*(?=[:\]*])', low):
        bound.add(m.group(1))
    for m in re.finditer(r'\b([A-Za-z_]\w*)\s*=\s*(?:shortestPath|\()', low, re.I):
        bound.add(m.group(1))
    for m in re.finditer(r'\bAS\s+([A-Za-z_]\w*)', low, re.I):
        bound.add(m.group(1))
    for m in re.finditer(r'\bYIELD\s+(.*?)(?=\bRETURN\b|\bWITH\b|\bWHERE\b|$)', low, re.I | re.S):
        for part in m.group(1).split(','):
            w = part.strip().split()
            if w:
                bound.add(w[-1])
    for m in re.finditer(r'\[\s*([A-Za-z_]\w*)\s+IN\b', low, re.I):
        bound.add(m.group(1))
    for m in re.finditer(r'\b(?:all|any|none|single)\(\s*([A-Za-z_]\w*)\s+IN\b', low, re.I):
        bound.add(m.group(1))
    used = set()
    for fn in FUNCS_ON_VAR:
        for m in re.finditer(r'\b' + fn + r'\(\s*(?:DISTINCT\s+)?([A-Za-z_]\w*)\s*\)', low, re.I):
            used.add(m.group(1))
    for m in re.finditer(r'(?<![\w$.])([A-Za-z_]\w*)\.(?=[A-Za-z_`])', low):
        if m.group(1).lower() not in ('apoc',) and not re.match(r'\d', m.group(1)):
            used.add(m.group(1))
    for m in re.finditer(r'\b(?:REMOVE|SET)\s+([A-Za-z_]\w*)\s*(?:\+=|\.|:)', low, re.I):
        used.add(m.group(1))
    for m in re.finditer(r'\bRETURN\s+([A-Za-z_]\w*)\s*(?:$|,)', low, re.I):
        used.add(m.group(1))
    unbound = sorted(x for x in used if x not in bound and x.lower() not in KEYWORDS)
    # names reached through "apoc.x.y" chains are not variables
    unbound = [x for x in unbound if not re.search(r'apoc(?:\.\w+)*\.' + re.escape(x) + r'\b', low)]
    if unbound:
        v.append(('unbound-variable', f'{unbound} used but never bound (bound: {sorted(bound)})'))
    return v
