"""Canonical forms of property graphs (independent of internal integer ids and of iteration order)."""
import hashlib
import json

import networkx as nx

GRAPH_ID = 'GraphID'
NODE_ID = 'NodeID'
CLASS = 'Class'


def tv(v):
    """type-tagged value so that 5 != '5' and True != 1 in canonical forms"""
    if isinstance(v, bool):
        return ('b', v)
    if isinstance(v, int):
        return ('i', v)
    if isinstance(v, float):
        return ('f', repr(v))
    if isinstance(v, str):
        return ('s', v)
    if v is None:
        return ('n', None)
    if isinstance(v, (list, tuple)):
        return ('l', tuple(tv(x) for x in v))
    if isinstance(v, dict):
        return ('d', tuple(sorted((str(k), tv(x)) for k, x in v.items())))
    return ('o', repr(v))


def props_canon(d, drop=()):
    return tuple(sorted((k, tv(v)) for k, v in d.items() if k not in drop))


def canon_nx(g: nx.Graph, drop_graph_id=False, key=NODE_ID):
    """Canonical form of one nx graph: nodes keyed by their NodeID property (falls back to the raw key
    when absent). Returns (nodes, edges) of sorted tuples. Duplicate NodeIDs are kept as duplicates."""
    drop = (GRAPH_ID,) if drop_graph_id else ()
    name = {}
    for n, d in g.nodes(data=True):
        nid = d.get(key)
        name[n] = ('id', nid) if nid is not None else ('raw', repr(n))
    nodes = tuple(sorted(((name[n], props_canon(d, drop)) for n, d in g.nodes(data=True)), key=repr))
    edges = []
    for a, b, d in g.edges(data=True):
        ends = tuple(sorted((name[a], name[b]), key=repr))
        edges.append((ends, props_canon(d)))
    edges = tuple(sorted(edges, key=repr))
    return nodes, edges


def split_by_graph_id(g: nx.Graph):
    """Split the shared store graph into {GraphID: subgraph}. Nodes lacking GraphID go under None."""
    groups = {}
    for n, d in g.nodes(data=True):
        groups.setdefault(d.get(GRAPH_ID), []).append(n)
    return {gid: g.subgraph(ns) for gid, ns in groups.items()}


def cross_graph_edges(g: nx.Graph):
    out = []
    for a, b in g.edges():
        if g.nodes[a].get(GRAPH_ID) != g.nodes[b].get(GRAPH_ID):
            out.append((a, b))
    return out


def digest(obj) -> str:
    return hashlib.sha1(repr(obj).encode('utf-8', 'backslashreplace')).hexdigest()[:16]


def jsonable(obj):
    """best-effort conversion to something json.dumps accepts (for samples / replay files)"""
    if isinstance(obj, (str, int, float, bool)) or obj is None:
        return obj
    if isinstance(obj, (list, tuple, set, frozenset)):
        return [jsonable(x) for x in obj]
    if isinstance(obj, dict):
        return {str(k): jsonable(v) for k, v in obj.items()}
    return repr(obj)


def dumps(obj):
    return json.dumps(jsonable(obj), sort_keys=True, ensure_ascii=True)
