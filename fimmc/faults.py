"""Deviation-bounded fault injection for sequential code: the k-th Python function ENTERED while a caller-supplied condition
holds raises InjectedFault (sys.monitoring PY_START; the exception surfaces in the code that made the call, exactly as if
the callee had failed on its first line).  One deviation per execution; the caller enumerates k = 0..n-1, n taken from a
fault-free dry run."""
import sys

mon = sys.monitoring
TOOL = 4


class InjectedFault(Exception):
    pass


class CalleeFaults:
    def __init__(self, armed, skip=()):
        self.armed = armed
        self.skip = set(skip)
        self.n = 0
        self.k = None
        self.where = None

    def _cb(self, code, offset):
        if code in self.skip or not self.armed():
            return None
        i = self.n
        self.n += 1
        if i == self.k:
            self.where = f'{code.co_name} ({code.co_filename.rsplit("/", 1)[-1]})'
            raise InjectedFault(f'injected failure entering {self.where}')
        return None

    def run(self, fn, k=None):
        """runs fn() with the k-th armed function entry failing (k=None: dry run); returns (result-or-exception, entries seen)"""
        self.n, self.k, self.where = 0, k, None
        try:
            mon.use_tool_id(TOOL, 'fimmc-faults')
        except ValueError:
            mon.free_tool_id(TOOL)
            mon.use_tool_id(TOOL, 'fimmc-faults')
        mon.register_callback(TOOL, mon.events.PY_START, self._cb)
        mon.set_events(TOOL, mon.events.PY_START)
        try:
            try:
                return ('ok', fn()), self.n
            except InjectedFault as e:
                return ('injected', str(e)), self.n
            except Exception as e:
                return ('raise', f'{type(e).__name__}: {e}'), self.n
        finally:
            mon.set_events(TOOL, 0)
            mon.register_callback(TOOL, mon.events.PY_START, None)
            mon.free_tool_id(TOOL)
