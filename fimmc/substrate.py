"""Generator of small substrate (ARM) models and delegation annotations, shared by C13 and C14."""
import json

from fim.user.topology import SubstrateTopology
from fim.user.component import ComponentModelType
from fim.slivers.capacities_labels import Labels, Capacities
from fim.slivers.network_service import ServiceType
from fim.slivers.network_node import NodeType
from fim.slivers.network_link import LinkType
from fim.slivers.interface_info import InterfaceType
from fim.slivers.delegations import Delegation, Delegations, DelegationType, DelegationFormat

from . import world

LAB, CAP = DelegationType.LABEL, DelegationType.CAPACITY
PROP = {LAB: 'LabelDelegations', CAP: 'CapacityDelegations'}


def build_site(site='A', workers=1, facility=False, second_switch=False, prefix=None, parallel=False):
    """site with workers (each a two-port NIC), one stitch switch with service and ports, patch links, optional facility,
    optional second switch with an inter-switch link. Static ids are '<prefix>-...'. Returns (topology, element ids)."""
    p = prefix or site
    t = SubstrateTopology()
    ids = {}
    sw = t.add_node(name=f'{p}-sw', node_id=f'{p}-sw', site=site, ntype=NodeType.Switch, stitch_node=True)
    sf = sw.add_network_service(name=f'{p}-sw-ns', node_id=f'{p}-sw-ns', nstype=ServiceType.MPLS, stitch_node=True,
                                labels=Labels(vlan_range='1-100'))
    ports = {}
    nports = 2 * workers + 2
    for i in range(nports):
        ports[i] = sf.add_interface(name=f'{p}-sw-p{i}', node_id=f'{p}-sw-p{i}', itype=InterfaceType.TrunkPort,
                                    labels=Labels(local_name=f'p{i}'), capacities=Capacities(bw=100),
                                    stitch_node=(i == nports - 1))          # the last port is the uplink shared with the network model
    ids['uplink'] = f'{p}-sw-p{nports - 1}'
    ids['switch'] = [f'{p}-sw', f'{p}-sw-ns']
    ids['workers'] = []
    for w in range(workers):
        wn = t.add_node(name=f'{p}-w{w}', node_id=f'{p}-w{w}', site=site, ntype=NodeType.Server,
                        capacities=Capacities(core=32, ram=128, disk=1000))
        nic = wn.add_component(name='nic', node_id=f'{p}-w{w}-nic', model_type=ComponentModelType.SmartNIC_ConnectX_6,
                               network_service_node_id=f'{p}-w{w}-nic-sf',
                               interface_node_ids=[f'{p}-w{w}-nic-p1', f'{p}-w{w}-nic-p2'],
                               interface_labels=[Labels(bdf='0000:41:00.0', mac='00:00:00:00:00:01'),
                                                 Labels(bdf='0000:41:00.1', mac='00:00:00:00:00:02')],
                               capacities=Capacities(unit=1))
        for k, i in enumerate(sorted(nic.interface_list, key=lambda x: x.name)):
            t.add_link(name=f'{p}-l{w}{k}', node_id=f'{p}-l{w}{k}', ltype=LinkType.Patch, interfaces=[i, ports[2 * w + k]])
        ids['workers'].append(dict(node=f'{p}-w{w}', comp=f'{p}-w{w}-nic', sf=f'{p}-w{w}-nic-sf',
                                   ports=[f'{p}-w{w}-nic-p1', f'{p}-w{w}-nic-p2'], swports=[f'{p}-sw-p{2 * w}', f'{p}-sw-p{2 * w + 1}'],
                                   links=[f'{p}-l{w}0', f'{p}-l{w}1']))
    if facility:
        fac = t.add_facility(name=f'{p}-fac', node_id=f'{p}-fac', site=site, labels=Labels(vlan_range='10-20'), capacities=Capacities(bw=10))
        t.add_link(name=f'{p}-lf', node_id=f'{p}-lf', ltype=LinkType.L2Path, interfaces=[fac.interface_list[0], ports[nports - 2]])
        ids['facility'] = dict(node=f'{p}-fac', ns=f'{p}-fac-ns', port=f'{p}-fac-int', swport=f'{p}-sw-p{nports - 2}', link=f'{p}-lf')
    if second_switch:
        sw2 = t.add_node(name=f'{p}-sw2', node_id=f'{p}-sw2', site=site, ntype=NodeType.Switch)
        sf2 = sw2.add_network_service(name=f'{p}-sw2-ns', node_id=f'{p}-sw2-ns', nstype=ServiceType.MPLS)
        q = sf2.add_interface(name=f'{p}-sw2-p0', node_id=f'{p}-sw2-p0', itype=InterfaceType.TrunkPort, capacities=Capacities(bw=100))
        t.add_link(name=f'{p}-lss', node_id=f'{p}-lss', ltype=LinkType.L2Path, interfaces=[q, ports[nports - 1]])
        ids['sw2'] = dict(node=f'{p}-sw2', ns=f'{p}-sw2-ns', port=f'{p}-sw2-p0', link=f'{p}-lss')
        if parallel:
            # a second link between the SAME two ports (two fibres of one trunk)
            t.add_link(name=f'{p}-lss2', node_id=f'{p}-lss2', ltype=LinkType.L2Path, interfaces=[q, ports[nports - 1]])
            ids['sw2']['link2'] = f'{p}-lss2'
            # ... and a stitching element nothing is attached to (yet): it still belongs in every partition
            t.add_node(name=f'{p}-iso', node_id=f'{p}-iso', site=site, ntype=NodeType.Switch, stitch_node=True)
    return t, ids


def details(t, which=0):
    return Labels(vlan_range=('1-10', '20-30')[which]) if t == LAB else Capacities(core=(4, 8)[which], unit=1)


def delegations_json(t, entries):
    """entries: list of (delegation id, format, pool id, details-variant|None)"""
    ds = Delegations(atype=t)
    for did, fmt, pool, dv in entries:
        d = Delegation(atype=t, delegation_id=did, aformat=fmt, pool_id=pool)
        if dv is not None:
            d.set_details(details(t, dv))
        ds.add_delegations(d)
    return ds.to_json()


# per-element annotation menu: name -> {type: [(id, format, pool, details)]}
S = DelegationFormat.SinglePool


def menu(pool_tag, ref_tag=None):
    return {
        # nothing but a reference to the pool defined on another element (ref_tag): the element is delegated all the same
        'poolrefonly@d1': {CAP: [('d1', DelegationFormat.PoolReference, f'pool-{ref_tag}', None)]},
        'none': {},
        'L@d1': {LAB: [('d1', S, None, 0)]},
        'C@d1': {CAP: [('d1', S, None, 0)]},
        'LC@d1': {LAB: [('d1', S, None, 0)], CAP: [('d1', S, None, 0)]},
        'LC@d2': {LAB: [('d2', S, None, 1)], CAP: [('d2', S, None, 1)]},
        'L@d1,C@d2': {LAB: [('d1', S, None, 0)], CAP: [('d2', S, None, 1)]},
        'LC@d1&d2': {LAB: [('d1', S, None, 0), ('d2', S, None, 1)], CAP: [('d1', S, None, 0), ('d2', S, None, 1)]},
        'pooldef@d1': {CAP: [('d1', DelegationFormat.PoolDefinition, f'pool-{pool_tag}', 0)]},
        'poolref@d1': {CAP: [('d1', DelegationFormat.PoolReference, 'pool-shared', None)], LAB: [('d1', S, None, 0)]},
    }


def annotate(graph, node_id, choice, pool_tag='x', ref_tag=None):
    ann = menu(pool_tag, ref_tag)[choice]
    for t, entries in ann.items():
        graph.update_node_property(node_id=node_id, prop_name=PROP[t], prop_val=delegations_json(t, entries))
    return {t: entries for t, entries in ann.items()}


def entries_of(props, t):
    """{delegation id: canonical entry json} found in a node's stored property"""
    txt = props.get(PROP[t])
    if not txt or txt == 'None':
        return {}
    return {k: json.dumps(v, sort_keys=True) for k, v in json.loads(txt).items()}
