"""Shared topology driver for C07 / C08 / C09 (and model source for C01 / C10 / C11).

Explicit-state search over histories of the documented topology-building calls on the real ExperimentTopology /
SubstrateTopology (NetworkX shared store). One alphabet, three oracle families selected by `oracles`:
  c07  published graph rules + containment structure + read-only views, in every reached state
  c08  every removal / disconnect: post-state == pre-state minus the owned closure; handle coherence
  c09  every failing variant of every building call: raised => model unchanged
"""
import json
import os
import re

import networkx as nx

import fim.user as fu
from fim.user.topology import ExperimentTopology, SubstrateTopology
from fim.user.model_element import TopologyException
from fim.slivers.capacities_labels import Labels, Capacities
from fim.slivers.network_service import ServiceType
from fim.slivers.network_node import NodeType
from fim.slivers.network_link import LinkType
from fim.slivers.interface_info import InterfaceType
from fim.user.component import ComponentModelType
import fim.graph.data as _gd

from . import world
from .canon import props_canon
from .engine import Model

NN, COMP, NS, CP, LINK = 'NetworkNode', 'Component', 'NetworkService', 'ConnectionPoint', 'Link'
PORT_TYPES = ('DedicatedPort', 'SharedPort', 'FacilityPort', 'SubInterface')


# ------------------------------------------------------------------------------------------------ rule-file vocabularies
def rule_vocab():
    path = os.path.join(os.path.dirname(_gd.__file__), 'graph_validation_rules.json')
    rules = json.load(open(path))
    vocab = {}
    for r in rules:
        m = re.search(r'MATCH \(n:(\w+) \{GraphID: \$graphId\}\) RETURN ALL\(r IN collect\(n\) WHERE r\.(Class|Type) IN \[(.*?)\]\)',
                      r['rule'])
        if m:
            vals = re.findall(r'"([^"]+)"', m.group(3))
            vocab[('Class' if m.group(2) == 'Class' else m.group(1))] = set(vals)
    return vocab


VOCAB = rule_vocab()


# ------------------------------------------------------------------------------------------------ raw graph access
class Raw:
    """decoded view of the topology's graph straight from the store"""

    def __init__(self, gid):
        g = world.shared_store().graphs
        self.nodes = {}      # NodeID -> props
        self.dups = []
        self.noid = []
        key = {}
        for n, d in g.nodes(data=True):
            if d.get('GraphID') != gid:
                continue
            nid = d.get('NodeID')
            if nid is None:
                self.noid.append(dict(d))
                continue
            if nid in self.nodes:
                self.dups.append(nid)
            self.nodes[nid] = dict(d)
            key[n] = nid
        self.adj = {nid: {} for nid in self.nodes}
        self.edges = []
        for a, b, d in g.edges(data=True):
            if a in key and b in key:
                self.adj[key[a]][key[b]] = d.get('Class')
                self.adj[key[b]][key[a]] = d.get('Class')
                self.edges.append((key[a], key[b], dict(d)))

    def cls(self, nid):
        return self.nodes[nid].get('Class')

    def typ(self, nid):
        return self.nodes[nid].get('Type')

    def name(self, nid):
        return self.nodes[nid].get('Name')

    def nb(self, nid, rel, cls):
        return [x for x, r in self.adj[nid].items() if r == rel and self.cls(x) == cls]

    def by_class(self, cls):
        return [n for n in self.nodes if self.cls(n) == cls]

    # ownership (downwards)
    def owner(self, nid):
        c = self.cls(nid)
        if c == COMP:
            p = self.nb(nid, 'has', NN)
        elif c == NS:
            p = self.nb(nid, 'has', COMP) + self.nb(nid, 'has', NN)
        elif c == CP:
            if self.typ(nid) == 'SubInterface':
                p = [x for x in self.nb(nid, 'connects', CP) if self.typ(x) != 'SubInterface']
            else:
                p = self.nb(nid, 'connects', NS)
        else:
            p = []
        return p

    def owned(self, nid):
        """everything reachable downwards over ownership"""
        out = set()
        stack = [nid]
        while stack:
            x = stack.pop()
            c = self.cls(x)
            kids = []
            if c == NN:
                kids = self.nb(x, 'has', COMP) + self.nb(x, 'has', NS)
            elif c == COMP:
                kids = self.nb(x, 'has', NS)
            elif c == NS:
                kids = self.nb(x, 'connects', CP)
            elif c == CP and self.typ(x) != 'SubInterface':
                kids = [y for y in self.nb(x, 'connects', CP) if self.typ(y) == 'SubInterface']
            for k in kids:
                if k not in out:
                    out.add(k)
                    stack.append(k)
        return out

    def path(self, nid, _seen=()):
        """structural path of a node - used to rename library-generated ids away"""
        if nid in _seen:
            return ('cycle', nid)
        c = self.cls(nid)
        if c == LINK:
            ends = sorted(repr(self.path(x, _seen + (nid,))) for x in self.nb(nid, 'connects', CP))
            return (c, self.name(nid), tuple(ends))
        own = self.owner(nid)
        return (c, self.name(nid), self.typ(nid), tuple(sorted(repr(self.path(o, _seen + (nid,))) for o in own)))

    def canon(self):
        keys = {}
        count = {}
        for nid in self.nodes:
            k = ('id', nid) if not world.is_generated_id(nid) else ('path', repr(self.path(nid)))
            keys[nid] = k
            count[k] = count.get(k, 0) + 1
        for nid, k in list(keys.items()):
            if count[k] > 1:
                keys[nid] = ('raw', nid)      # ambiguous structural path: never merge
        nodes = tuple(sorted(((keys[n], props_canon(d, drop=('NodeID', 'GraphID') if keys[n][0] == 'path' else ('GraphID',)))
                              for n, d in self.nodes.items()), key=repr))
        edges = tuple(sorted(((tuple(sorted((keys[a], keys[b]), key=repr)), props_canon(d)) for a, b, d in self.edges), key=repr))
        return nodes, edges, tuple(sorted(self.dups)), len(self.noid)

    def exact(self):
        """exact snapshot keyed by real NodeIDs (for frame conditions within one transition)"""
        nodes = {n: props_canon(d) for n, d in self.nodes.items()}
        edges = {frozenset((a, b)): props_canon(d) for a, b, d in self.edges}
        return nodes, edges, tuple(sorted(self.dups)), len(self.noid)


# ------------------------------------------------------------------------------------------------ the model
COMPONENT_MODELS = {'c1': 'SmartNIC_ConnectX_6', 'c2': 'SharedNIC_ConnectX_6', 'c3': 'GPU_RTX6000', 'c4': 'FPGA_Xilinx_U280',
                    'c5': 'NVME_P4510'}
SERVICE_TYPES = {'s1': ('L2Bridge', 'L2PTP'), 's2': ('L2STS', 'L3VPN', 'L2Multisite')}


class TopoModel(Model):
    def __init__(self, flavour='exp', oracles=('c07',), rich_alphabet=False):
        self.flavour = flavour
        self.oracles = set(oracles)
        self.t = None
        self.name = f'topo-{flavour}'
        self.rich_alphabet = rich_alphabet

    # ------------------------------------------------------------ plumbing
    def roots(self):
        return ['empty', 'R1', 'R2'] if self.flavour == 'exp' else ['S0', 'S1', 'S2']

    def new_topo(self):
        world.reset_all()
        self.t = ExperimentTopology() if self.flavour == 'exp' else SubstrateTopology()

    def build_root(self, root):
        self.new_topo()
        script = ROOT_SCRIPTS[root]
        for ev in script:
            out = self.apply(ev)
            if out[0] != 'ok':
                raise RuntimeError(f'root {root}: {ev} -> {out}')
        self._last_ev = ('root-' + root,)
        self.shadow = None
        if script and 'c08' in self.oracles:
            # the model that is worked on is a COPY (same element ids, new graph id) of an older model that stays in the
            # store next to it: whatever is removed from the copy, the older model keeps exactly what it has
            text = self.t.serialize()
            old_gid = self.t.graph_model.graph_id
            t2 = ExperimentTopology() if self.flavour == 'exp' else SubstrateTopology()
            t2.load(graph_string=text, new_graph_id='working-copy')
            self.t = t2
            self.shadow = (old_gid, Raw(old_gid).exact())

    def snapshot(self):
        return (world.snapshot_shared(), world.UUID_SEAM.counter, self.t.graph_model.graph_id, getattr(self, 'shadow', None))

    def restore(self, snap):
        world.restore_shared(snap[0])
        world.UUID_SEAM.counter = snap[1]
        if self.t is None or self.t.graph_model.graph_id != snap[2]:
            self.t = ExperimentTopology() if self.flavour == 'exp' else SubstrateTopology()
            from fim.graph.slices.networkx_asm import NetworkxASM
            self.t.graph_model = NetworkxASM(graph_id=snap[2], importer=world.shared_importer())
            world.UUID_SEAM.counter = snap[1]
        self.shadow = snap[3] if len(snap) > 3 else None

    def raw(self):
        return Raw(self.t.graph_model.graph_id)

    def canon(self):
        st = world.shared_store()
        return (self.raw().canon(), st.start_id > max(st.graphs.nodes, default=0))

    def observe(self):
        return self.raw()

    # ------------------------------------------------------------ lookups (fresh handles every time)
    def all_nodes(self):
        d = dict(self.t.nodes)
        d.update(dict(self.t.facilities))
        return d

    def node(self, name):
        return self.all_nodes()[name]

    def ports(self):
        """[(owner node name, interface)] for every node-side port incl. sub-interfaces, deterministic order"""
        out = []
        for nn, n in sorted(self.all_nodes().items()):
            for i in n.interface_list:
                out.append((nn, i))
                if i.type == InterfaceType.DedicatedPort:
                    for s in i.interface_list:
                        out.append((nn, s))
        out.sort(key=lambda x: (x[0], x[1].name))
        # the driver addresses ports by (node, name): of several same-named ports of one node (legal when they belong to
        # different services) only the first-listed is ever addressed; the others just exist
        groups = {}
        for a, i in out:
            groups.setdefault((a, i.name), []).append(i)
        first = []
        for (a, nm), lst in groups.items():
            if len(lst) > 1:
                # the one whose owning service comes first by name (listing order of a node's interfaces is not a contract)
                def owner_name(i):
                    try:
                        return self.t.get_parent_element(i).name
                    except Exception:
                        return '~'
                lst = sorted(lst, key=owner_name)
            first.append((a, lst[0]))
        first.sort(key=lambda x: (x[0], x[1].name))
        return first

    def port(self, nn, iname):
        for a, i in self.ports():
            if a == nn and i.name == iname:
                return i
        raise KeyError((nn, iname))

    def free_ports(self):
        return [(nn, i) for nn, i in self.ports() if i.type != InterfaceType.ServicePort and not i.get_peers()]

    def service(self, name):
        return self.t.network_services[name]

    def top_services(self):
        raw = self.raw()
        return sorted(raw.name(s) for s in raw.by_class(NS) if not raw.owner(s))

    # ------------------------------------------------------------ alphabet
    def events(self):
        t = self.t
        ev = []
        raw = self.raw()
        nodes = self.all_nodes()
        names = set(nodes)
        exp = self.flavour == 'exp'
        if exp:
            for n, site in (('n1', 'S1'), ('n2', 'S2')):
                if n not in names:
                    ev.append(('add_node', n, site, 'VM', n == 'n2'))
            if 'sw1' not in names:
                ev.append(('add_switch', 'sw1', 'S1'))
            if 'f1' not in names:
                ev.append(('add_facility', 'f1', 'S1', 'kwargs'))
                ev.append(('add_facility', 'f1', 'S1', 'list2'))
                ev.append(('add_facility', 'f1', 'S1', 'list2-id'))
        vm_names = [n for n in sorted(names) if nodes[n].type in (NodeType.VM, NodeType.Server)]
        for n in vm_names:
            have = set(nodes[n].components.keys())
            comps = ('c1', 'c2', 'c3') if not self.rich_alphabet else tuple(COMPONENT_MODELS)
            for c in comps:
                if exp and c not in have:
                    ev.append(('add_component', n, c, COMPONENT_MODELS[c]))
            if exp and 'st1' not in have:
                ev.append(('add_storage', n, 'st1'))
            for c in sorted(have):
                ev.append(('remove_component', n, c))
        free = self.free_ports()
        tops = self.top_services()
        if exp:
            for s, types in SERVICE_TYPES.items():
                if s not in tops:
                    for ty in types:
                        ev.append(('add_service', s, ty, ()))
                        if len(free) >= 1:
                            ev.append(('add_service', s, ty, (self._pref(free[0]),)))
                        if len(free) >= 2:
                            ev.append(('add_service', s, ty, (self._pref(free[0]), self._pref(free[1]))))
                            far = [p for p in free if p[0] != free[0][0]]
                            if far and far[0] != free[1]:
                                ev.append(('add_service', s, ty, (self._pref(free[0]), self._pref(far[0]))))
            if 'pm' not in tops:
                ded = [p for p in free if p[1].type == InterfaceType.DedicatedPort]
                if ded:
                    ev.append(('add_mirror', 'pm', ded[0][1].name, self._pref(ded[0])))
                    if len(ded) > 1:
                        ev.append(('add_mirror', 'pm', ded[0][1].name, self._pref(ded[1])))
        for s in tops:
            for p in free[:2]:
                ev.append(('connect', s, self._pref(p)))
            svc = self.service(s)
            conn = []
            for si in svc.interface_list:
                peers = si.get_peers() or []
                for p in peers:
                    conn.append(p)
            for p in sorted(conn, key=lambda i: i.name)[:2]:
                own = self.t.get_owner_node(p)
                if own is not None and not isinstance(own, Exception):
                    ev.append(('disconnect', s, (own.name, p.name)))
            ev.append(('remove_service', s))
        if exp and 'c08' in self.oracles:
            for n in sorted(names):
                if nodes[n].type in (NodeType.Switch, NodeType.Facility):
                    for sn in sorted(nodes[n].network_services.keys())[:1]:
                        ev.append(('sub_remove_node_service', n, sn))
            owned = sorted(raw.name(x) for x in raw.by_class(NS) if raw.owner(x) and raw.cls(sorted(raw.owner(x))[0]) == COMP)
            for sn in owned[:2]:
                ev.append(('remove_service_owned', sn))
            # disconnecting a port through a service it is NOT connected to must not touch anything
            for s in tops:
                for other in tops:
                    if other == s:
                        continue
                    for si in self.service(other).interface_list:
                        for p in (si.get_peers() or [])[:1]:
                            own = self.t.get_owner_node(p)
                            if own is not None and p.type != InterfaceType.ServicePort:
                                ev.append(('disconnect', s, (own.name, p.name)))
                        break
        if exp and ('c08' in self.oracles or 'c07' in self.oracles):
            # un-peering services that do not peer: a slice-wide service and the built-in service of a NIC connected to
            # it, and the built-in services of two components of one node (joined by equally long paths)
            owned_by_node = {}
            for x in raw.by_class(NS):
                ow = sorted(raw.owner(x))
                if ow and raw.cls(ow[0]) == COMP:
                    nn_ = sorted(raw.owner(ow[0]))
                    owned_by_node.setdefault(nn_[0] if nn_ else None, []).append(raw.name(x))
            for lst in owned_by_node.values():
                lst.sort()
                if len(lst) >= 2:
                    ev.append(('unpeer', lst[0], lst[1]))
                    break
            for s in tops[:1]:
                for lst in owned_by_node.values():
                    ev.append(('unpeer', s, lst[0]))
                    break
            # removing links through the topology call - here every link is one created for a connection
            for l_ in sorted(self.t.links.keys())[:2]:
                ev.append(('remove_link', l_))
        if exp and 'sw1' in names:
            # the switch's own service can peer too: with a slice-wide service (which may ALSO be connected to a port of the
            # switch - then two routes lead from one service to the other) and with a second service of the same switch
            sw_sv = sorted(nodes['sw1'].network_services.keys())
            if 'sw1-ns2' not in sw_sv:
                ev.append(('add_switch_service', 'sw1', 'sw1-ns2'))
            for s_ in tops[:1]:
                if 'sw1-ns' in sw_sv:
                    ev += [('peer', s_, 'sw1-ns'), ('unpeer', s_, 'sw1-ns'), ('unpeer', 'sw1-ns', s_)]
            if 'sw1-ns' in sw_sv and 'sw1-ns2' in sw_sv:
                ev += [('peer', 'sw1-ns', 'sw1-ns2'), ('unpeer', 'sw1-ns', 'sw1-ns2'), ('unpeer', 'sw1-ns2', 'sw1-ns')]
        if exp and 's1' in tops and 's2' in tops:
            ev.append(('peer', 's1', 's2'))
            ev.append(('unpeer', 's1', 's2'))
            ev.append(('unpeer', 's2', 's1'))
        for nn, i in self.ports():
            if i.type == InterfaceType.DedicatedPort:
                subs = {s.name for s in i.interface_list}
                for sn, vlan in (('sub1', '100'), ('sub2', '200')):
                    if exp and sn not in subs and len(subs) < 2 and i.name.endswith('p1'):
                        ev.append(('add_sub', (nn, i.name), sn, vlan))
                for sn in sorted(subs):
                    ev.append(('remove_sub', (nn, i.name), sn))
        for n in sorted(names):
            ty = nodes[n].type
            if ty == NodeType.Facility:
                ev.append(('remove_facility', n))
            elif ty == NodeType.Switch:
                ev.append(('remove_switch', n))
                ev.append(('remove_node', n))
            else:
                ev.append(('remove_node', n))
        # renames and property edits on a few elements
        if 'n1' in names:
            ev.append(('rename', ('node', 'n1'), 'zz'))
            if 'n2' in names:
                ev.append(('rename', ('node', 'n1'), 'n2'))
            ev.append(('setprop', ('node', 'n1'), 'capacities', 1))
            ev.append(('setprop', ('node', 'n1'), 'labels', 1))
            ev.append(('setprop', ('node', 'n1'), 'site', 1))
            ev.append(('setprop', ('node', 'n1'), 'user_data', 1))
            ev.append(('unsetprop', ('node', 'n1'), 'capacities'))
            ev.append(('unsetprop', ('node', 'n1'), 'site'))
            ev.append(('unsetprop', ('node', 'n1'), 'name'))
        if 's1' in tops:
            ev.append(('rename', ('service', 's1'), 'zz'))
            if 's2' in tops:
                ev.append(('rename', ('service', 's1'), 's2'))
            ev.append(('setprop', ('service', 's1'), 'labels', 1))
            ev.append(('unsetprop', ('service', 's1'), 'labels'))
        if exp and 'c08' in self.oracles:
            # ExperimentTopology.prune: mark elements as failed, then prune that state
            marks = []
            if 'n1' in names:
                marks.append((('node', 'n1'),))
                comps1 = sorted(nodes['n1'].components.keys()) if nodes['n1'].type != NodeType.Facility else []
                for c in comps1[:1]:
                    marks.append((('component', 'n1', c),))
                ports1 = [i for nn, i in self.ports() if nn == 'n1' and i.type in (InterfaceType.DedicatedPort, InterfaceType.SharedPort)]
                for i in ports1[:1]:
                    marks.append((('port', 'n1', i.name),))
            # the built-in service of a NIC (its ports may carry connected sub-interfaces)
            owned_ns = sorted(raw.name(x) for x in raw.by_class(NS) if raw.owner(x) and raw.cls(sorted(raw.owner(x))[0]) == COMP)
            for sn in owned_ns[:1]:
                marks.append((('owned_service', sn),))
            for sname in tops[:1]:
                marks.append((('service', sname),))
                if 'n2' in names:
                    marks.append((('node', 'n2'), ('service', sname)))
            for m in marks:
                ev.append(('prune', m))
        if exp and 'c08' in self.oracles:
            # "undo through an older handle": a handle obtained BEFORE another handle of the same element made a change is
            # then used to take that change back (every lookup builds a new handle, so this is ordinary use)
            for s in tops[:2]:
                for p in free[:1]:
                    ev.append(('undo_old', 'connect', s, self._pref(p)))
            if 's1' in tops and 's2' in tops:
                ev.append(('undo_old', 'peer', 's1', 's2'))
            for nn, i in self.ports():
                if i.type == InterfaceType.DedicatedPort and not i.get_peers():
                    ev.append(('undo_old', 'sub', (nn, i.name)))
                    # ... and with an unrelated addition made through another handle in between
                    ev.append(('undo_old', 'sub-other-added', (nn, i.name)))
                    break
            for s in tops[:1]:
                if len(free) >= 2:
                    ev.append(('undo_old', 'connect-other-added', s, self._pref(free[0]), self._pref(free[1])))
            for n in sorted(names):
                if nodes[n].type == NodeType.VM:
                    ev.append(('undo_old', 'component', n))
                    break
        if not exp:
            ev += self._substrate_events(raw, nodes, free)
        return ev

    @staticmethod
    def _pref(p):
        return (p[0], p[1].name)

    def _substrate_events(self, raw, nodes, free):
        ev = []
        names = set(nodes)
        for w in ('w1', 'w2'):
            if w not in names:
                ev.append(('sub_add_server', w))
            else:
                if 'nic1' not in nodes[w].components:
                    ev.append(('sub_add_nic', w, 'nic1'))
                else:
                    for i in nodes[w].components['nic1'].interface_list:
                        if i.name.endswith('p1'):
                            subs = {x.name for x in i.interface_list}
                            if 'sub1' not in subs:
                                ev.append(('sub_add_sub', (w, i.name), 'sub1', '100'))
                            for sn in sorted(subs):
                                ev.append(('remove_sub', (w, i.name), sn))
                            ev.append(('sub_remove_nic_interface', w, 'nic1', i.name))
        if 'sw' not in names:
            ev.append(('sub_add_switch', 'sw'))
        links = set(self.t.links.keys())
        if 'w1' in names and 'sw' in names:
            swp = [i for i in nodes['sw'].interface_list]
            wp = [i for i in nodes['w1'].interface_list] + ([i for i in nodes['w2'].interface_list] if 'w2' in names else [])
            fp = [i for i in swp + wp if not i.get_peers()]
            if 'l1' not in links and len(fp) >= 2:
                a = [i for i in fp if i in wp][:1]
                b = [i for i in fp if i in swp][:1]
                if a and b:
                    ev.append(('sub_add_link', 'l1', (('w1', a[0].name), ('sw', b[0].name)), 'Patch'))
            if 'ls' not in links and [i for i in fp if i in wp]:
                # a link over a single interface (a stub): accepted by add_link, goes when its interface goes
                a1 = [i for i in fp if i in wp][-1]
                ev.append(('sub_add_link', 'ls', ((self.t.get_owner_node(a1).name, a1.name),), 'Patch'))
            if 'l3' not in links and len(fp) >= 3:
                ev.append(('sub_add_link', 'l3', tuple((self.t.get_owner_node(i).name, i.name) for i in fp[:3]), 'L2Path'))
        for l in sorted(links):
            ev.append(('sub_remove_link', l))
        if 'sw' in names and 'c07' in self.oracles and 'sw-ns2' not in nodes['sw'].network_services:
            # a second service on the switch whose port carries the SAME name as a port of the first service (names are
            # unique per service, so this is legal): the node then owns two interfaces of one name
            ev.append(('sub_add_twin_service', 'sw'))
        if 'sw' in names:
            sns = list(nodes['sw'].network_services.values())
            if sns and sns[0].interface_list:
                ev.append(('sub_remove_ns_interface', 'sw', sns[0].name, sorted(i.name for i in sns[0].interface_list)[0]))
            if sns:
                ev.append(('sub_remove_node_service', 'sw', sns[0].name))
        return ev

    # ------------------------------------------------------------ execution
    def apply(self, ev):
        try:
            r = self._do(ev)
            return ('ok', r)
        except AssertionError as e:
            return ('raise', 'AssertionError', str(e)[:100])
        except Exception as e:
            return ('raise', type(e).__name__, str(e)[:100])

    def _ifs(self, refs):
        return [self.port(nn, iname) for nn, iname in refs]

    def _elem(self, ref):
        kind, name = ref
        if kind == 'node':
            return self.node(name)
        if kind == 'service':
            return self.service(name)
        raise KeyError(ref)

    def _do(self, ev):
        t = self.t
        k = ev[0]
        self.handles = {}
        if k == 'add_node':
            t.add_node(name=ev[1], site=ev[2], ntype=NodeType[ev[3]], node_id=('id-' + ev[1]) if ev[4] else None)
        elif k == 'add_switch':
            t.add_switch(name=ev[1], site=ev[2], nports=2)
        elif k == 'add_switch_service':
            # its port carries the SAME name as the first port of the switch's own service (names are unique per service,
            # so this is legal): the switch then owns two interfaces called p1
            sv = self.node(ev[1]).add_network_service(name=ev[2], nstype=ServiceType.P4)
            sv.add_interface(name='p1', itype=InterfaceType.DedicatedPort, labels=Labels(local_name='q1'))
        elif k == 'add_facility':
            form = ev[3]
            if form == 'kwargs':
                t.add_facility(name=ev[1], site=ev[2], labels=Labels(vlan='100'), capacities=Capacities(bw=10))
            else:
                ifs = [(ev[1] + '-i1', Labels(vlan='101'), Capacities(bw=1)), (ev[1] + '-i2', Labels(vlan='102'), Capacities(bw=2))]
                t.add_facility(name=ev[1], site=ev[2], interfaces=ifs, node_id=('id-' + ev[1]) if form == 'list2-id' else None)
        elif k == 'add_component':
            self.node(ev[1]).add_component(name=ev[2], model_type=ComponentModelType[ev[3]])
        elif k == 'add_storage':
            self.node(ev[1]).add_storage(name=ev[2], labels=Labels(local_name='vol1'))
        elif k == 'remove_component':
            n = self.node(ev[1])
            n.remove_component(ev[2])
        elif k == 'add_service':
            t.add_network_service(name=ev[1], nstype=ServiceType[ev[2]], interfaces=self._ifs(ev[3]))
        elif k == 'add_mirror':
            t.add_port_mirror_service(name=ev[1], from_interface_name=ev[2], to_interface=self.port(*ev[3]))
        elif k == 'connect':
            s = self.service(ev[1])
            s.connect_interface(self.port(*ev[2]))
            self.handles['service'] = s
        elif k == 'disconnect':
            s = self.service(ev[1])
            s.disconnect_interface(self.port(*ev[2]))
            self.handles['service'] = s
        elif k == 'remove_service':
            t.remove_network_service(ev[1])
        elif k == 'undo_old':
            self._undo_stage = 0
            what = ev[1]
            if what == 'connect':
                old, new = self.service(ev[2]), self.service(ev[2])
                port = self.port(*ev[3])
                new.connect_interface(port)
                self._undo_stage = 1
                old.disconnect_interface(self.port(*ev[3]))
                self.handles['service'] = old
            elif what == 'peer':
                a_old, b_old = self.service(ev[2]), self.service(ev[3])
                self.service(ev[2]).peer(self.service(ev[3]))
                self._undo_stage = 1
                a_old.unpeer(b_old)
                self.handles['service'] = a_old
                self.handles['service2'] = b_old
            elif what == 'sub':
                old, new = self.port(*ev[2]), self.port(*ev[2])
                new.add_child_interface(name='subU', labels=Labels(vlan='300'))
                self._undo_stage = 1
                old.remove_child_interface(name='subU')
                self.handles['port'] = old
            elif what == 'sub-other-added':
                h1, h2 = self.port(*ev[2]), self.port(*ev[2])
                h1.add_child_interface(name='subU', labels=Labels(vlan='300'))
                h2.add_child_interface(name='subV', labels=Labels(vlan='301'))
                self._undo_stage = 1
                h1.remove_child_interface(name='subU')
                self.handles['port'] = h1
            elif what == 'connect-other-added':
                h1, h2 = self.service(ev[2]), self.service(ev[2])
                h1.connect_interface(self.port(*ev[3]))
                h2.connect_interface(self.port(*ev[4]))
                self._undo_stage = 1
                h1.disconnect_interface(self.port(*ev[3]))
                self.handles['service'] = h1
            elif what == 'component':
                old, new = self.node(ev[2]), self.node(ev[2])
                new.add_component(name='cU', model_type=ComponentModelType.SmartNIC_ConnectX_6)
                self._undo_stage = 1
                old.remove_component('cU')
            self._undo_stage = 2
        elif k == 'peer':
            a, b = self.service(ev[1]), self.service(ev[2])
            a.peer(b)
            self.handles['service'] = a
            self.handles['service2'] = b
        elif k == 'unpeer':
            a, b = self.service(ev[1]), self.service(ev[2])
            a.unpeer(b)
            self.handles['service'] = a
            self.handles['service2'] = b
        elif k == 'add_sub':
            p = self.port(*ev[1])
            p.add_child_interface(name=ev[2], labels=Labels(vlan=ev[3]))
            self.handles['port'] = p
        elif k == 'remove_sub':
            p = self.port(*ev[1])
            p.remove_child_interface(name=ev[2])
            self.handles['port'] = p
        elif k == 'remove_node':
            t.remove_node(ev[1])
        elif k == 'prune':
            from fim.slivers.capacities_labels import ReservationInfo
            for m in ev[1]:
                if m[0] == 'node':
                    e = self.node(m[1])
                elif m[0] == 'component':
                    e = self.node(m[1]).components[m[2]]
                elif m[0] == 'port':
                    e = self.port(m[1], m[2])
                else:
                    e = self.service(m[1])
                e.set_property('reservation_info', ReservationInfo(reservation_state='Failed'))
            t.prune(reservation_state='Failed')
        elif k == 'remove_facility':
            t.remove_facility(name=ev[1])
        elif k == 'remove_switch':
            t.remove_switch(name=ev[1])
        elif k == 'rename':
            self._elem(ev[1]).rename(ev[2])
        elif k == 'setprop':
            val = {'capacities': Capacities(core=2, ram=8), 'labels': Labels(vlan='7'), 'site': 'S9',
                   'user_data': {'k': [1, 2]}}[ev[2]]
            e = self._elem(ev[1])
            if ev[2] == 'user_data':
                e.user_data = val
            else:
                e.set_property(ev[2], val)
        elif k == 'unsetprop':
            self._elem(ev[1]).unset_property(ev[2])
        # ---- substrate flavour
        elif k == 'sub_add_server':
            t.add_node(name=ev[1], node_id='id-' + ev[1], site='S1', ntype=NodeType.Server, capacities=Capacities(core=4))
        elif k == 'sub_add_switch':
            sw = t.add_node(name=ev[1], node_id='id-' + ev[1], site='S1', ntype=NodeType.Switch, stitch_node=True)
            sf = sw.add_network_service(name=ev[1] + '-ns', node_id='id-' + ev[1] + '-ns', nstype=ServiceType.MPLS, stitch_node=True)
            for i in (1, 2, 3):
                sf.add_interface(name=f'{ev[1]}-p{i}', node_id=f'id-{ev[1]}-p{i}', itype=InterfaceType.TrunkPort,
                                 labels=Labels(local_name=f'p{i}'), capacities=Capacities(bw=100))
        elif k == 'sub_add_twin_service':
            sf = self.node(ev[1]).add_network_service(name=ev[1] + '-ns2', node_id='id-' + ev[1] + '-ns2', nstype=ServiceType.MPLS)
            sf.add_interface(name=f'{ev[1]}-p1', node_id=f'id-{ev[1]}-ns2-p1', itype=InterfaceType.TrunkPort,
                             labels=Labels(local_name='q1'), capacities=Capacities(bw=10))
        elif k == 'sub_add_nic':
            self.node(ev[1]).add_component(name=ev[2], node_id=f'id-{ev[1]}-{ev[2]}', model_type=ComponentModelType.SmartNIC_ConnectX_6,
                                           network_service_node_id=f'id-{ev[1]}-{ev[2]}-sf',
                                           interface_node_ids=[f'id-{ev[1]}-{ev[2]}-p1', f'id-{ev[1]}-{ev[2]}-p2'],
                                           interface_labels=[Labels(bdf='0000:41:00.0', mac='00:00:00:00:00:01'),
                                                             Labels(bdf='0000:41:00.1', mac='00:00:00:00:00:02')])
        elif k == 'sub_add_sub':
            p = self.port(*ev[1])
            p.add_child_interface(name=ev[2], node_id=f'id-{ev[1][0]}-{ev[2]}', labels=Labels(vlan=ev[3]))
            self.handles['port'] = p
        elif k == 'sub_add_link':
            ifs = self._ifs(ev[2])
            # the stub link is given its interfaces as a tuple (both sequence kinds are accepted), and the handle the
            # call returns is used like any other
            lk = t.add_link(name=ev[1], node_id='id-' + ev[1], ltype=LinkType[ev[3]], interfaces=tuple(ifs) if ev[1] == 'ls' else ifs)
            if sorted(i.node_id for i in lk.interface_list) != sorted(i.node_id for i in ifs):
                raise AssertionError(f'the handle add_link returned lists {[i.name for i in lk.interface_list]}')
        elif k == 'sub_remove_link':
            t.remove_link(ev[1])
        elif k == 'sub_remove_ns_interface':
            s = self.node(ev[1]).network_services[ev[2]]
            s.remove_interface(name=ev[3])
            self.handles['service'] = s
        elif k == 'sub_remove_nic_interface':
            # the service of a NIC: its port may own sub-interfaces, which go with it
            s = list(self.node(ev[1]).components[ev[2]].network_services.values())[0]
            s.remove_interface(name=ev[3])
            self.handles['service'] = s
        elif k == 'sub_remove_node_service':
            self.node(ev[1]).remove_network_service(ev[2])
        elif k == 'remove_service_owned':
            t.remove_network_service(ev[1])
        elif k == 'remove_link':
            t.remove_link(ev[1])
        else:
            raise AssertionError(f'unknown event {ev}')
        return None

    def outcome_label(self, ev, outcome):
        if ev[0] == 'undo_old':
            return f'undo_old/{ev[1]}:{outcome[0]}@stage{getattr(self, "_undo_stage", 0)}'
        return f'{ev[0]}:{outcome[0]}'


ROOT_SCRIPTS = {
    'empty': [],
    # R1: two VMs with SmartNICs joined by an L2STS service
    'R1': [('add_node', 'n1', 'S1', 'VM', False), ('add_node', 'n2', 'S2', 'VM', True),
           ('add_component', 'n1', 'c1', 'SmartNIC_ConnectX_6'), ('add_component', 'n2', 'c1', 'SmartNIC_ConnectX_6'),
           ('add_service', 's2', 'L2STS', (('n1', 'c1-p1'), ('n2', 'c1-p1')))],
    # R2: sub-interfaces, a facility on an L3VPN that peers with a second service, a shared NIC on a bridge
    'R2': [('add_node', 'n1', 'S1', 'VM', False), ('add_node', 'n2', 'S2', 'VM', True),
           ('add_component', 'n1', 'c1', 'SmartNIC_ConnectX_6'), ('add_component', 'n1', 'c2', 'SharedNIC_ConnectX_6'),
           ('add_component', 'n2', 'c1', 'SmartNIC_ConnectX_6'),
           ('add_sub', ('n1', 'c1-p1'), 'sub1', '100'), ('add_sub', ('n1', 'c1-p1'), 'sub2', '200'),
           ('add_facility', 'f1', 'S1', 'kwargs'),
           ('add_service', 's2', 'L3VPN', (('f1', 'f1-int'), ('n1', 'sub1'))),
           ('add_service', 's1', 'L2Bridge', (('n1', 'c2-p1'),)),
           ('peer', 's1', 's2')],
    # R3: names chosen so that two derived service-port names coincide ('n1' + 'xx-yy-p1' and 'n1-xx' + 'yy-p1')
    'R3': [('add_node', 'n1', 'S1', 'VM', False), ('add_node', 'n1-xx', 'S1', 'VM', False),
           ('add_component', 'n1', 'xx-yy', 'SharedNIC_ConnectX_6'), ('add_component', 'n1-xx', 'yy', 'SharedNIC_ConnectX_6'),
           ('add_service', 's1', 'L2Bridge', (('n1', 'xx-yy-p1'), ('n1-xx', 'yy-p1')))],
    # R4: a switch whose own service peers with a slice-wide service that is also connected to a port of the switch, and
    # with a second service of the same switch
    'R4': [('add_node', 'n1', 'S1', 'VM', False), ('add_component', 'n1', 'c1', 'SmartNIC_ConnectX_6'),
           ('add_switch', 'sw1', 'S1'), ('add_switch_service', 'sw1', 'sw1-ns2'),
           ('add_service', 's1', 'L2Bridge', (('n1', 'c1-p1'), ('sw1', 'p1'))),
           ('peer', 's1', 'sw1-ns'), ('peer', 'sw1-ns', 'sw1-ns2')],
    'S0': [],
    'S1': [('sub_add_server', 'w1'), ('sub_add_switch', 'sw'), ('sub_add_nic', 'w1', 'nic1'),
           ('sub_add_link', 'l1', (('w1', 'nic1-p1'), ('sw', 'sw-p1')), 'Patch')],
    # S2: two servers whose NIC ports (one carrying a sub-interface) and a switch port share one three-ended link
    'S2': [('sub_add_server', 'w1'), ('sub_add_server', 'w2'), ('sub_add_switch', 'sw'),
           ('sub_add_nic', 'w1', 'nic1'), ('sub_add_nic', 'w2', 'nic1'),
           ('sub_add_sub', ('w1', 'nic1-p1'), 'sub1', '100'),
           ('sub_add_link', 'l3', (('w1', 'nic1-p1'), ('w2', 'nic1-p1'), ('sw', 'sw-p1')), 'L2Path'),
           ('sub_add_link', 'l1', (('w1', 'nic1-p2'), ('sw', 'sw-p2')), 'Patch'),
           # ... and the sub-interface itself is joined to a switch port by a plain link (no service port involved)
           ('sub_add_link', 'l4', (('w1', 'sub1'), ('sw', 'sw-p3')), 'Patch')],
}


# ================================================================================================ C07 oracles
def c07_invariants(raw: Raw):
    v = []

    def bad(fp, msg):
        v.append((f'c07/{fp}', msg))
    if raw.noid:
        bad('identity/missing-NodeID', f'{raw.noid[:2]}')
    for nid in raw.dups:
        bad('identity/duplicate-NodeID', f'NodeID {nid} is carried by two elements')
    for nid, d in raw.nodes.items():
        for p in ('Class', 'Type', 'Name', 'NodeID'):
            if d.get(p) in (None, ''):
                bad(f'identity/missing-{p}', f'{nid}: {d}')
        c, ty = d.get('Class'), d.get('Type')
        if c not in VOCAB['Class']:
            bad('vocabulary/class', f'{nid} has class {c}')
        elif c in VOCAB and ty not in VOCAB[c]:
            bad(f'vocabulary/type/{c}/{ty}', f'{d.get("Name")} ({c}) has type {ty}, the published rules allow {sorted(VOCAB[c])}')
    for a, b, d in raw.edges:
        ca, cb, r = raw.cls(a), raw.cls(b), d.get('Class')
        pair = tuple(sorted((ca, cb)))
        ok = (r == 'has' and pair in ((COMP, NN), (NN, NS), (COMP, NS))) or \
             (r == 'connects' and pair in ((CP, NS), (CP, CP), (CP, LINK)))
        if not ok:
            bad(f'containment/edge/{r}/{pair[0]}-{pair[1]}', f'edge {raw.name(a)}({ca}) -{r}- {raw.name(b)}({cb})')
    for nid in raw.by_class(COMP):
        own = raw.nb(nid, 'has', NN)
        if len(own) != 1:
            bad('containment/component-owner', f'component {raw.name(nid)} is owned by {len(own)} nodes')
    for nid in raw.by_class(CP):
        ty = raw.typ(nid)
        own = raw.owner(nid)
        if len(own) != 1:
            bad(f'containment/interface-owner/{ty}', f'interface {raw.name(nid)} ({ty}) has {len(own)} owners: {[raw.name(o) for o in own]}')
        if ty == 'SubInterface' and raw.nb(nid, 'connects', NS):
            bad('containment/subinterface-on-service', f'{raw.name(nid)}')
        if ty != 'SubInterface':
            for x in raw.nb(nid, 'connects', CP):
                if raw.typ(x) != 'SubInterface':
                    bad('containment/port-port-edge', f'{raw.name(nid)} - {raw.name(x)}')
        if ty == 'ServicePort':
            peers = [(l, y) for l in raw.nb(nid, 'connects', LINK) for y in raw.nb(l, 'connects', CP) if y != nid]
            if len(peers) != 1:
                bad('service-port-peer', f'service port {raw.name(nid)} has {len(peers)} peers')
    for nid in raw.by_class(LINK):
        for x, r in raw.adj[nid].items():
            if raw.cls(x) != CP or r != 'connects':
                bad('link-joins-non-interface', f'link {raw.name(nid)} -{r}- {raw.name(x)} ({raw.cls(x)})')
    for nid in raw.by_class(NS):
        if len(raw.owner(nid)) > 1:
            bad('containment/service-owner', f'service {raw.name(nid)} has {len(raw.owner(nid))} owners')

    # names unique in their scope
    def uniq(scope, ids):
        seen = {}
        for i in ids:
            seen.setdefault(raw.name(i), []).append(i)
        for nm, lst in seen.items():
            if len(lst) > 1:
                bad(f'name-scope/{scope}', f'{len(lst)} elements named {nm!r} in scope {scope}')
                return False
        return True
    ok_nodes = uniq('topology-nodes', raw.by_class(NN))
    ok_links = uniq('topology-links', raw.by_class(LINK))
    ok_svcs = uniq('topology-services', [s for s in raw.by_class(NS) if not raw.owner(s)])
    for n in raw.by_class(NN):
        uniq('node-components', raw.nb(n, 'has', COMP))
        uniq('node-services', raw.nb(n, 'has', NS))
    for c in raw.by_class(COMP):
        uniq('component-services', raw.nb(c, 'has', NS))
    for s in raw.by_class(NS):
        uniq('service-interfaces', raw.nb(s, 'connects', CP))
    for p in raw.by_class(CP):
        if raw.typ(p) != 'SubInterface':
            uniq('port-subinterfaces', [x for x in raw.nb(p, 'connects', CP) if raw.typ(x) == 'SubInterface'])
    return v, (ok_nodes, ok_links, ok_svcs)


def c07_views(model: TopoModel, raw: Raw, scopes_ok):
    v = []
    t = model.t

    def bad(fp, msg):
        v.append((f'c07/view/{fp}', msg))
    ok_nodes, ok_links, ok_svcs = scopes_ok
    try:
        if ok_nodes:
            got = sorted(list(t.nodes.keys()) + list(t.facilities.keys()))
            want = sorted(raw.name(n) for n in raw.by_class(NN))
            if got != want:
                bad('nodes', f'nodes+facilities list {got}, model holds {want}')
            if set(t.nodes.keys()) & set(t.facilities.keys()):
                bad('nodes', 'a node is listed both as node and as facility')
            ids = sorted(n.node_id for n in list(t.nodes.values()) + list(t.facilities.values()))
            if ids != sorted(raw.by_class(NN)):
                bad('nodes-ids', f'{ids}')
        if ok_links:
            got = sorted(t.links.keys())
            want = sorted(raw.name(n) for n in raw.by_class(LINK))
            if got != want:
                bad('links', f'links view {got}, model holds {want}')
        allsv = raw.by_class(NS)
        if len({raw.name(s) for s in allsv}) == len(allsv):
            got = sorted(t.network_services.keys())
            want = sorted(raw.name(n) for n in allsv)
            if got != want:
                bad('network_services', f'view {got}, model holds {want}')
            for nm, s in t.network_services.items():
                want_if = sorted(raw.nb(s.node_id, 'connects', CP))
                if sorted(i.node_id for i in s.interface_list) != want_if:
                    bad('service.interface_list', f'{nm}: {[i.name for i in s.interface_list]} vs model {[raw.name(x) for x in want_if]}')
        # per node
        all_if = []
        for n in raw.by_class(NN):
            name = raw.name(n)
            if not ok_nodes:
                break
            node = model.all_nodes()[name]
            want_c = sorted(raw.nb(n, 'has', COMP))
            if sorted(c.node_id for c in node.components.values()) != want_c:
                bad('node.components', f'{name}: {list(node.components.keys())} vs {[raw.name(x) for x in want_c]}')
            want_s = sorted(raw.nb(n, 'has', NS))
            if sorted(s.node_id for s in node.network_services.values()) != want_s:
                bad('node.network_services', f'{name}')
            want_i = []
            for s in raw.nb(n, 'has', NS):
                want_i += raw.nb(s, 'connects', CP)
            for c in raw.nb(n, 'has', COMP):
                for s in raw.nb(c, 'has', NS):
                    want_i += raw.nb(s, 'connects', CP)
            got_i = sorted(i.node_id for i in node.interface_list)
            if got_i != sorted(want_i):
                bad('node.interface_list', f'{name}: {[i.name for i in node.interface_list]} vs {[raw.name(x) for x in want_i]}')
            if raw.typ(n) != 'Facility':
                all_if += want_i
            for c in node.components.values():
                wci = []
                for s in raw.nb(c.node_id, 'has', NS):
                    wci += raw.nb(s, 'connects', CP)
                if sorted(i.node_id for i in c.interface_list) != sorted(wci):
                    bad('component.interface_list', f'{name}/{c.name}')
        if ok_nodes and sorted(i.node_id for i in t.interface_list) != sorted(all_if):
            bad('topology.interface_list', f'{[i.name for i in t.interface_list]} vs {[raw.name(x) for x in all_if]}')
        # views cannot be used to modify the model
        before = raw.exact()
        for vname, view in (('nodes', t.nodes), ('links', t.links), ('network_services', t.network_services),
                            ('facilities', t.facilities)):
            for op in ('set', 'del', 'clear', 'pop', 'update'):
                try:
                    if op == 'set':
                        view['intruder'] = 1
                    elif op == 'del':
                        if len(view):
                            del view[list(view.keys())[0]]
                        else:
                            del view['x']
                    elif op == 'clear':
                        view.clear()
                    elif op == 'pop':
                        view.pop(list(view.keys())[0] if len(view) else 'x')
                    else:
                        view.update({'intruder': 1})
                    bad(f'writable/{vname}/{op}', f'{op} on the {vname} view did not raise')
                except Exception:
                    pass
        if model.raw().exact() != before:
            bad('write-through', 'an attempted modification through a view changed the model')
        if 'intruder' in t.nodes or 'intruder' in t.network_services:
            bad('write-through', 'intruder visible')
    except Exception as e:
        import traceback
        bad(f'raises/{type(e).__name__}', f'reading the views raised {type(e).__name__}: {e} {traceback.format_exc(limit=3)}')
    return v


# ================================================================================================ C08 oracles
REMOVALS = {'remove_node', 'remove_facility', 'remove_switch', 'remove_component', 'remove_service', 'remove_service_owned', 'disconnect', 'unpeer', 'remove_link',
            'remove_sub', 'prune', 'sub_remove_link', 'sub_remove_ns_interface', 'sub_remove_nic_interface', 'sub_remove_node_service'}


def _find(pre: Raw, cls, name, within=None):
    c = [n for n in (within if within is not None else pre.by_class(cls)) if pre.cls(n) == cls and pre.name(n) == name]
    return c[0] if len(c) == 1 else None


def _peers(pre: Raw, cp):
    return [(l, y) for l in pre.nb(cp, 'connects', LINK) for y in pre.nb(l, 'connects', CP) if y != cp]


def c08_targets(pre: Raw, ev):
    """returns ('remove', set of NodeIDs the statement says must go) | ('must-raise', why) | ('unspecified', why)"""
    k = ev[0]
    T = set()
    if k in ('remove_node', 'remove_facility', 'remove_switch'):
        root = _find(pre, NN, ev[1])
        if root is None:
            return ('unspecified', 'ambiguous or missing node name')
        T = {root} | pre.owned(root)
    elif k == 'remove_component':
        n = _find(pre, NN, ev[1])
        c = _find(pre, COMP, ev[2], pre.nb(n, 'has', COMP)) if n else None
        if c is None:
            return ('unspecified', 'ambiguous')
        T = {c} | pre.owned(c)
    elif k == 'remove_service':
        s = _find(pre, NS, ev[1], [x for x in pre.by_class(NS) if not pre.owner(x)])
        if s is None:
            return ('unspecified', 'ambiguous')
        T = {s} | pre.owned(s)
    elif k == 'sub_remove_node_service':
        n = _find(pre, NN, ev[1])
        s = _find(pre, NS, ev[2], pre.nb(n, 'has', NS)) if n else None
        if s is None:
            return ('unspecified', 'ambiguous')
        T = {s} | pre.owned(s)
    elif k == 'remove_service_owned':
        s = _find(pre, NS, ev[1])
        if s is None:
            return ('unspecified', 'ambiguous')
        T = {s} | pre.owned(s)
    elif k == 'sub_remove_ns_interface':
        n = _find(pre, NN, ev[1])
        s = _find(pre, NS, ev[2], pre.nb(n, 'has', NS)) if n else None
        i = _find(pre, CP, ev[3], pre.nb(s, 'connects', CP)) if s else None
        if i is None:
            return ('unspecified', 'ambiguous')
        T = {i} | pre.owned(i)
    elif k == 'sub_remove_nic_interface':
        n = _find(pre, NN, ev[1])
        c = _find(pre, COMP, ev[2], pre.nb(n, 'has', COMP)) if n else None
        ss = pre.nb(c, 'has', NS) if c else []
        i = _find(pre, CP, ev[3], pre.nb(ss[0], 'connects', CP)) if ss else None
        if i is None:
            return ('unspecified', 'ambiguous')
        T = {i} | pre.owned(i)
    elif k == 'sub_remove_link':
        l = _find(pre, LINK, ev[1])
        if l is None:
            return ('unspecified', 'ambiguous')
        return ('remove', {l})
    elif k == 'disconnect':
        s = _find(pre, NS, ev[1], [x for x in pre.by_class(NS) if not pre.owner(x)])
        port = _port_id(pre, ev[2])
        if s is None or port is None:
            return ('unspecified', 'ambiguous')
        sp = [y for l, y in _peers(pre, port) if pre.typ(y) == 'ServicePort' and s in pre.owner(y)]
        if len(sp) == 0:
            return ('no-change', 'the port is not connected to this service')
        if len(sp) != 1:
            return ('unspecified', 'port connected to this service more than once')
        T = {sp[0]}
    elif k == 'remove_link':
        l = _find(pre, LINK, ev[1])
        if l is None:
            return ('unspecified', 'ambiguous')
        if any(pre.typ(x) == 'ServicePort' for x in pre.nb(l, 'connects', CP)):
            # a link created for a connection: whether the call refuses it or takes the service port along is left to the
            # library - the published rules (C07) judge the model that results
            return ('unspecified', 'link created for a connection')
        return ('remove', {l})
    elif k == 'unpeer':
        a = _find(pre, NS, ev[1])
        b = _find(pre, NS, ev[2])
        if a is None or b is None:
            return ('unspecified', 'ambiguous')
        # services peer through two service ports facing each other (a node port connected to a service is a connection)
        pairs = [(x, y) for x in pre.nb(a, 'connects', CP) for l, y in _peers(pre, x)
                 if b in pre.owner(y) and pre.typ(x) == 'ServicePort' and pre.typ(y) == 'ServicePort']
        if not pairs:
            return ('must-raise', 'the two services do not peer')
        if len(pairs) > 1:
            return ('unspecified', 'services peer more than once')
        T = set(pairs[0])
    elif k == 'prune':
        for m in ev[1]:
            if m[0] == 'node':
                x = _find(pre, NN, m[1])
            elif m[0] == 'component':
                n = _find(pre, NN, m[1])
                x = _find(pre, COMP, m[2], pre.nb(n, 'has', COMP)) if n else None
            elif m[0] == 'port':
                x = _port_id(pre, (m[1], m[2]))
            elif m[0] == 'owned_service':
                x = _find(pre, NS, m[1], [y for y in pre.by_class(NS) if pre.owner(y)])
            else:
                x = _find(pre, NS, m[1], [y for y in pre.by_class(NS) if not pre.owner(y)])
            if x is None:
                return ('unspecified', 'ambiguous')
            T |= {x} | pre.owned(x)
    elif k == 'remove_sub':
        port = _port_id(pre, ev[1])
        sub = _find(pre, CP, ev[2], pre.nb(port, 'connects', CP)) if port else None
        if sub is None:
            return ('unspecified', 'ambiguous')
        T = {sub}
    else:
        return ('unspecified', 'not a removal')
    # the peering artefacts created for removed node-side ports: service-side port (and, below, the link)
    # (a service port facing another service's port is an artefact of that peering on both sides)
    for x in list(T):
        if pre.cls(x) == CP:
            for l, y in _peers(pre, x):
                if pre.typ(y) == 'ServicePort':
                    T.add(y)
    # a link goes iff fewer than two of its ends survive
    for x in list(T):
        if pre.cls(x) == CP:
            for l in pre.nb(x, 'connects', LINK):
                ends = pre.nb(l, 'connects', CP)
                if len([e for e in ends if e not in T]) < 2:
                    T.add(l)
    return ('remove', T)


def _port_id(pre: Raw, ref):
    nn, iname = ref
    n = _find(pre, NN, nn)
    if n is None:
        return None
    cands = []
    for x in pre.owned(n):
        if pre.cls(x) == CP and pre.name(x) == iname:
            cands.append(x)
    return cands[0] if len(cands) == 1 else None


def c08_check(model: TopoModel, pre: Raw, ev, outcome):
    v = []
    k = ev[0]
    if k == 'undo_old':
        stage = getattr(model, '_undo_stage', 0)
        post = model.raw()
        if stage == 2 and ev[1] in ('sub-other-added', 'connect-other-added'):
            # reference: only the surviving addition, made through a fresh handle on the pre-state
            snap_now = model.snapshot()
            model.restore(model._pre_snap)
            if ev[1] == 'sub-other-added':
                model.port(*ev[2]).add_child_interface(name='subV', labels=Labels(vlan='301'))
            else:
                model.service(ev[2]).connect_interface(model.port(*ev[4]))
            want = model.raw().canon()
            model.restore(snap_now)
            if post.canon() != want:
                v.append((f'c08/undo-through-older-handle/{ev[1]}/model-differs',
                          f'{ev}: after taking back one of two additions the model is not "pre-state + the other addition"'))
            v += _handle_coherence(model, post, f'undo-through-older-handle/{ev[1]}', ev)
        elif stage == 2:
            # the change was taken back through a handle that predates it: the model is what it was, and that handle agrees
            # with a fresh lookup
            if post.exact() != pre.exact():
                left = sorted(f'{post.cls(x)}:{post.name(x)}' for x in set(post.nodes) - set(pre.nodes))
                gone = sorted(f'{pre.cls(x)}:{pre.name(x)}' for x in set(pre.nodes) - set(post.nodes))
                v.append((f'c08/undo-through-older-handle/{ev[1]}/model-differs',
                          f'{ev}: both calls returned normally but the model is not what it was: left {left}, lost {gone}, '
                          f'edges {len(post.exact()[1])} vs {len(pre.exact()[1])}'))
            v += _handle_coherence(model, post, f'undo-through-older-handle/{ev[1]}', ev)
        return v
    if k not in REMOVALS:
        return v
    verdict = c08_targets(pre, ev)
    post = model.raw()
    if verdict[0] == 'unspecified':
        return v
    if verdict[0] == 'no-change':
        if pre.exact() != post.exact():
            gone = sorted(f'{pre.cls(x)}:{pre.name(x)}' for x in set(pre.nodes) - set(post.nodes))
            v.append((f'c08/{k}/not-applicable-changed-model', f'{ev}: {verdict[1]}; the call ({outcome[0]}) removed {gone}'))
        return v
    if verdict[0] == 'must-raise':
        if outcome[0] == 'ok':
            removed = sorted(pre.name(x) for x in set(pre.nodes) - set(post.nodes))
            v.append((f'c08/{k}/not-applicable-but-succeeded', f'{ev}: {verdict[1]}, yet the call returned normally and removed {removed}'))
        elif pre.exact() != post.exact():
            v.append((f'c08/{k}/not-applicable-changed-model', f'{ev}: {verdict[1]}; the call raised but the model changed'))
        return v
    T = verdict[1]
    if outcome[0] != 'ok':
        v.append((f'c08/{k}/raises', f'{ev} is applicable but raised {outcome[1:]}'))
        return v
    pn, pe, _, _ = pre.exact()
    qn, qe, _, _ = post.exact()
    want_nodes = {n: p for n, p in pn.items() if n not in T}
    want_edges = {e: p for e, p in pe.items() if not (set(e) & T)}
    extra_removed = sorted(set(want_nodes) - set(qn))
    not_removed = sorted(set(qn) & T)
    added = sorted(set(qn) - set(pn))

    def nm(ids):
        return [f'{pre.cls(i) if i in pre.nodes else "?"}:{pre.name(i) if i in pre.nodes else i}' for i in ids]
    if extra_removed:
        kinds = '+'.join(sorted({pre.cls(i) + ('/' + pre.typ(i) if pre.cls(i) == CP else '') for i in extra_removed}))
        v.append((f'c08/{k}/removed-too-much/{kinds}', f'{ev}: also deleted {nm(extra_removed)} which the element neither owns nor were created for it'))
    if not_removed:
        kinds = '+'.join(sorted({pre.cls(i) + ('/' + pre.typ(i) if pre.cls(i) == CP else '') for i in not_removed}))
        v.append((f'c08/{k}/left-behind/{kinds}', f'{ev}: left {nm(not_removed)} in the model'))
    if added:
        v.append((f'c08/{k}/added-elements', f'{ev}: new elements {added}'))
    if not extra_removed and not not_removed and not added:
        for n in want_nodes:
            if qn[n] != want_nodes[n]:
                v.append((f'c08/{k}/changed-properties', f'{ev}: properties of surviving {nm([n])} changed'))
                break
        if set(qe) != set(want_edges):
            lost = [tuple(nm(e)) for e in set(want_edges) - set(qe)]
            new = [tuple(e) for e in set(qe) - set(want_edges)]
            v.append((f'c08/{k}/changed-connections', f'{ev}: surviving connections lost {lost} / appeared {new}'))
        else:
            for e in want_edges:
                if qe[e] != want_edges[e]:
                    v.append((f'c08/{k}/changed-edge-properties', f'{ev}'))
                    break
    v += _handle_coherence(model, post, k, ev)
    return v


def _handle_coherence(model, post, k, ev):
    v = []
    try:
        h = getattr(model, 'handles', {})
        for key in ('service', 'service2'):
            if key in h:
                s = h[key]
                if s.node_id in post.nodes:
                    fresh = sorted(post.nb(s.node_id, 'connects', CP))
                    got = sorted(i.node_id for i in s.interface_list)
                    if got != fresh:
                        v.append((f'c08/{k}/stale-handle/{key}',
                                  f'{ev}: handle of {s.name} reports interfaces {[i.name for i in s.interface_list]}, a fresh lookup {[post.name(x) for x in fresh]}'))
        if 'port' in h:
            p = h['port']
            if p.node_id in post.nodes:
                fresh = sorted(x for x in post.nb(p.node_id, 'connects', CP) if post.typ(x) == 'SubInterface')
                got = sorted(i.node_id for i in p.interface_list)
                if got != fresh:
                    v.append((f'c08/{k}/stale-handle/port',
                              f'{ev}: handle of {p.name} reports sub-interfaces {[i.name for i in p.interface_list]}, a fresh lookup {[post.name(x) for x in fresh]}'))
    except Exception as e:
        v.append((f'c08/{k}/handle-raises', f'{type(e).__name__}: {e}'))
    return v


# ================================================================================================ C09: failing variants
def fail_events(model: TopoModel):
    """every failing variant of the building calls that is expressible in the current state"""
    ev = []
    nodes = model.all_nodes()
    names = sorted(nodes)
    exp = model.flavour == 'exp'
    free = model.free_ports()
    allp = model.ports()
    connected = [p for p in allp if p[1].type != InterfaceType.ServicePort and p[1].get_peers()]
    shared_free = [p for p in free if p[1].type == InterfaceType.SharedPort]
    tops = model.top_services()
    raw = model.raw()
    ev.append(('fail', 'node-bad-name', 'a'))
    ev.append(('fail', 'node-bad-name', 'bad name!'))
    ev.append(('fail', 'node-no-site'))
    ev.append(('fail', 'node-no-type'))
    for pos in ('first', 'middle', 'last'):
        ev.append(('fail', 'node-bad-property', pos))
    ev.append(('fail', 'node-unknown-property'))
    if names:
        # a node created together with two services (ns_info), the second of which has an id that is taken
        ev.append(('fail', 'node-nested-service-duplicate-id', nodes[names[0]].node_id))
    ev.append(('fail', 'facility-bad-interface-property'))
    ev.append(('fail', 'facility-colliding-ids'))
    ev.append(('fail', 'facility-duplicate-interface-names'))
    ev.append(('fail', 'switch-bad-port-property'))
    ev.append(('fail', 'service-no-type'))
    ev.append(('fail', 'service-bad-property'))
    # a multi-property update of an EXISTING element with one rejected value among good ones, at every position
    targets = []
    if names:
        targets.append(('node', names[0]))
    for s_ in tops[:1]:
        targets.append(('service', s_))
    for nn, i in allp[:1]:
        targets.append(('port', nn, i.name))
    for n_ in names:
        if nodes[n_].type != NodeType.Facility and nodes[n_].components:
            targets.append(('component', n_, sorted(nodes[n_].components.keys())[0]))
            break
    for l_ in sorted(model.t.links.keys())[:1]:
        targets.append(('link', l_))
    for tg in targets:
        for pos in ('first', 'middle', 'last', 'with-name-first', 'with-name-last', 'unset-then-unset-name'):
            ev.append(('fail', 'setprops-bad-among-good', tg, pos))
    if names:
        n0 = names[0]
        ev.append(('fail', 'type-outside-vocabulary', n0))
        ev.append(('fail', 'type-of-another-kind', n0))
        if free:
            ev.append(('fail', 'link-non-interface', n0, model._pref(free[0])))
            ev.append(('fail', 'link-same-interface-twice', model._pref(free[0])))
            # a port does not become a service port (nor cease to be one) by having its type rewritten
            ev.append(('fail', 'type-to-service-port', model._pref(free[0])))
            ev.append(('fail', 'type-to-sub-interface', model._pref(free[0])))
            if exp:
                for how in ('number', 'generator-that-fails'):
                    ev.append(('fail', 'service-interfaces-not-a-list', how, model._pref(free[0])))
                # a user link over a port of a service: that port already has its one peer
                spn = [(raw.name(sorted(raw.owner(x))[0]), raw.name(x)) for x in raw.by_class(CP)
                       if raw.typ(x) == 'ServicePort' and raw.owner(x) and not raw.owner(sorted(raw.owner(x))[0])]
                for svc_name, port_name in sorted(spn)[:1]:
                    ev.append(('fail', 'link-over-service-port', svc_name, port_name, model._pref(free[0])))
                    ev.append(('fail', 'link-over-service-port', svc_name, port_name, model._pref(free[0]), 'tuple'))
                    ev.append(('fail', 'type-from-service-port', svc_name, port_name))
                    # ... nor by moving between the two kinds of port that never stand alone
                    ev.append(('fail', 'type-service-port-to-sub-interface', svc_name, port_name))
        ev.append(('fail', 'node-duplicate-name', n0))
        ev.append(('fail', 'rename-bad-name', n0))
        ev.append(('fail', 'node-duplicate-id', nodes[n0].node_id))
        ev.append(('fail', 'facility-duplicate-name', n0))
        ev.append(('fail', 'switch-duplicate-name', n0))
        ev.append(('fail', 'service-duplicate-id', nodes[n0].node_id))
    vms = [n for n in names if nodes[n].type in (NodeType.VM, NodeType.Server)]
    if vms and exp:
        n0 = vms[0]
        ev.append(('fail', 'component-unknown-model', n0))
        ev.append(('fail', 'component-bad-property', n0))
        ev.append(('fail', 'component-duplicate-id', n0, nodes[n0].node_id))
        for c in sorted(nodes[n0].components.keys())[:1]:
            ev.append(('fail', 'component-duplicate-name', n0, c))
            ev.append(('fail', 'storage-duplicate-name', n0, c))
    for s in tops[:1]:
        ev.append(('fail', 'service-duplicate-name', s))
    if exp:
        # the k-th interface of a new service is the bad one
        goods = [model._pref(p) for p in free if p[1].type in (InterfaceType.DedicatedPort, InterfaceType.FacilityPort)]
        bads = []
        if connected:
            bads.append(('connected', model._pref(connected[0])))
        if shared_free:
            bads.append(('shared-on-L2PTP', model._pref(shared_free[0])))
        sps = [x for x in raw.by_class(CP) if raw.typ(x) == 'ServicePort']
        if sps:
            bads.append(('not-node-owned', ('#id', sps[0])))
        if free:
            bads.append(('stale-handle', model._pref(free[-1])))
            bads.append(('same-twice', model._pref(free[0])))
        for why, b in bads:
            for k in range(0, min(3, len(goods) + 1)):
                g = [x for x in goods if x != b][:k]
                if len(g) < k:
                    continue
                ty = 'L2PTP' if why == 'shared-on-L2PTP' else 'L2Bridge'
                ev.append(('fail', 'service-kth-interface', why, ty, tuple(g), b))
        for why, b in bads[:3]:
            ev.append(('fail', 'mirror-bad-to-interface', why, b))
        # a link given the id of an element that exists already (another link, an interface, a node)
        if len(free) >= 2:
            taken = [nodes[names[0]].node_id] if names else []
            taken += [model.t.links[l].node_id for l in sorted(model.t.links.keys())[:1]]
            taken += [free[0][1].node_id]
            for tid in taken:
                ev.append(('fail', 'link-duplicate-id', tid, (model._pref(free[0]), model._pref(free[1]))))
        # a link whose k-th interface handle went stale (its owner was removed after the handle was taken)
        if len(free) >= 2:
            for pos in (0, 1):
                ev.append(('fail', 'link-kth-interface', pos, 'Patch', (model._pref(free[0]),), model._pref(free[-1])))
        for s in tops[:1]:
            for why, b in bads[:2]:
                if why in ('connected', 'not-node-owned'):
                    ev.append(('fail', 'connect-bad', s, why, b))
        for s_ in tops[:1]:
            ev.append(('fail', 'peer-self', s_))
            ev.append(('fail', 'connect-derived-name-too-long', s_))
        if len(tops) >= 2:
            ev.append(('fail', 'peer-stale-service', tops[0], tops[1]))
        if 's1' in tops and 's2' in tops:
            ev.append(('fail', 'peer-twice', 's1', 's2'))
            for why in ('bad-labels', 'bad-labels-among-good', 'duplicate-id'):
                ev.append(('fail', 'peer-bad-argument', 's1', 's2', why))
                ev.append(('fail', 'peer-bad-argument', 's2', 's1', why))
        for nn, i in allp:
            if i.type == InterfaceType.DedicatedPort:
                ev.append(('fail', 'sub-no-vlan', (nn, i.name)))
                subs = list(i.interface_list)
                if subs:
                    ev.append(('fail', 'sub-duplicate-name', (nn, i.name), subs[0].name))
                    ev.append(('fail', 'type-sub-interface-to-service-port', (nn, i.name), subs[0].name))
                    vl = subs[0].labels.vlan if subs[0].labels else None
                    if vl:
                        ev.append(('fail', 'sub-duplicate-vlan', (nn, i.name), vl))
                ev.append(('fail', 'sub-bad-property', (nn, i.name)))
                break
        for nn, i in allp:
            if i.type == InterfaceType.SharedPort:
                ev.append(('fail', 'sub-on-shared-port', (nn, i.name)))
                break
        for nn, i in allp:
            if i.type == InterfaceType.DedicatedPort and 'subD' not in {x.name for x in i.interface_list}:
                ev.append(('fail', 'sub-duplicate-via-second-handle', (nn, i.name)))
                break
    else:
        fp = [model._pref(p) for p in free]
        if fp:
            if len(fp) > 1 and fp[0][0] != fp[-1][0]:
                for pos in (0, 1):
                    ev.append(('fail', 'link-kth-interface', pos, 'Patch', (fp[0],), fp[-1]))
            ev.append(('fail', 'link-bad-property', tuple(fp[:2])))
            ev.append(('fail', 'link-no-type', tuple(fp[:2])))
        links = sorted(model.t.links.keys())
        if links and len(fp) >= 2:
            ev.append(('fail', 'link-duplicate-name', links[0], tuple(fp[:2])))
            ev.append(('fail', 'link-duplicate-id', model.t.links[links[0]].node_id, tuple(fp[:2])))
        if names and len(fp) >= 2:
            ev.append(('fail', 'link-duplicate-id', nodes[names[0]].node_id, tuple(fp[:2])))
            ev.append(('fail', 'link-duplicate-id', model.port(*fp[0]).node_id, tuple(fp[:2])))
        if names:
            ev.append(('fail', 'sub-node-without-id'))
        if 'sw' in names and nodes['sw'].network_services:
            ev.append(('fail', 'sub-service-interface-twice-one-handle', 'sw'))
        servers = [n for n in names if nodes[n].type == NodeType.Server]
        for w in servers[:1]:
            taken = nodes[w].node_id
            # a NIC whose own id, service id or k-th interface id is already taken; missing / short static id lists
            for why in ('own-id', 'service-id', 'interface-id-0', 'interface-id-1', 'same-interface-id-twice', 'no-interface-ids',
                        'short-interface-ids', 'short-labels', 'bad-property'):
                ev.append(('fail', 'sub-component', w, why, taken))
    return ev


class _Stale:
    """handle of an interface that no longer exists"""
    def __init__(self, real):
        self.__dict__['_real'] = real


def _do_fail(model: TopoModel, ev):
    t = model.t
    kind = ev[1]
    BAD = 'x' * 5000      # boot script far beyond its limit - rejected by the sliver setter
    sub = model.flavour != 'exp'
    nid = (lambda s: 'id-' + s) if sub else (lambda s: None)
    if kind == 'node-bad-name':
        t.add_node(name=ev[2], site='S1', node_id=nid('bad'))
    elif kind == 'node-nested-service-duplicate-id':
        from fim.slivers.network_service import NetworkServiceInfo, NetworkServiceSliver, NSLayer
        nsi = NetworkServiceInfo()
        for nm, sid in (('nsa', 'id-nsa-fresh'), ('nsb', ev[2])):
            sl = NetworkServiceSliver()
            sl.set_name(nm)
            sl.set_type(ServiceType.OVS)
            sl.set_layer(NSLayer.L2)
            sl.node_id = sid
            nsi.add_network_service(sl)
        t.add_node(name='nnested', site='S1', node_id=nid('nnested'), ns_info=nsi)
    elif kind == 'node-no-site':
        t.add_node(name='nx', site=None, node_id=nid('nx'))
    elif kind == 'node-no-type':
        t.add_node(name='nx', site='S1', ntype=None, node_id=nid('nx'))
    elif kind == 'node-bad-property':
        good1, good2 = ('capacities', Capacities(core=1)), ('labels', Labels(vlan='5'))
        bad = ('boot_script', BAD)
        order = {'first': [bad, good1, good2], 'middle': [good1, bad, good2], 'last': [good1, good2, bad]}[ev[2]]
        t.add_node(name='nx', site='S1', node_id=nid('nx'), **dict(order))
    elif kind == 'node-unknown-property':
        t.add_node(name='nx', site='S1', node_id=nid('nx'), capacities=Capacities(core=1), no_such_property=1)
    elif kind == 'node-duplicate-name':
        t.add_node(name=ev[2], site='S1', node_id=nid('dup'))
    elif kind == 'node-duplicate-id':
        t.add_node(name='nx', site='S1', node_id=ev[2])
    elif kind == 'facility-duplicate-name':
        t.add_facility(name=ev[2], site='S1', node_id=nid('fx'))
    elif kind == 'facility-bad-interface-property':
        t.add_facility(name='fx', site='S1', node_id=nid('fx'), boot_script=BAD)
    elif kind == 'facility-colliding-ids':
        t.add_facility(name='fx', site='S1', node_id='id-fx',
                       interfaces=[('fx-a', Labels(vlan='1'), Capacities(bw=1)), ('fx-b', Labels(vlan='2'), Capacities(bw=1))])
    elif kind == 'switch-duplicate-name':
        t.add_switch(name=ev[2], site='S1', nports=2, node_id=nid('swx'))
    elif kind == 'switch-bad-port-property':
        t.add_switch(name='swx', site='S1', nports=2, node_id=nid('swx'), portlabels='not-a-labels-object')
    elif kind == 'service-no-type':
        t.add_network_service(name='sx', nstype=None, interfaces=[])
    elif kind == 'service-bad-property':
        t.add_network_service(name='sx', nstype=ServiceType.L2Bridge, interfaces=[], boot_script=BAD)
    elif kind == 'service-duplicate-name':
        t.add_network_service(name=ev[2], nstype=ServiceType.L2Bridge, interfaces=[])
    elif kind == 'service-duplicate-id':
        t.add_network_service(name='sx', nstype=ServiceType.L2Bridge, interfaces=[], node_id=ev[2])
    elif kind == 'component-unknown-model':
        model.node(ev[2]).add_component(name='cx', ctype=fu.ComponentType.GPU, model='no-such-model')
    elif kind == 'component-bad-property':
        model.node(ev[2]).add_component(name='cx', model_type=ComponentModelType.GPU_RTX6000, boot_script=BAD)
    elif kind == 'component-duplicate-name':
        model.node(ev[2]).add_component(name=ev[3], model_type=ComponentModelType.GPU_RTX6000)
    elif kind == 'component-duplicate-id':
        model.node(ev[2]).add_component(name='cx', model_type=ComponentModelType.SmartNIC_ConnectX_6, node_id=ev[3])
    elif kind == 'storage-duplicate-name':
        model.node(ev[2]).add_storage(name=ev[3])
    elif kind in ('service-kth-interface', 'mirror-bad-to-interface', 'connect-bad'):
        def resolve(why, ref):
            if ref[0] == '#id':
                from fim.user.interface import Interface
                raw = model.raw()
                return Interface(name=raw.name(ref[1]), node_id=ref[1], topo=t)
            i = model.port(*ref)
            if why == 'stale-handle':
                # take a handle, then remove the interface's owner so the handle dangles
                own = model.t.get_owner_node(i)
                comp = model.t.get_parent_element(model.t.get_parent_element(i)) if i.type != InterfaceType.SubInterface else None
                raise _Skip()
            return i
        if kind == 'service-kth-interface':
            _, _, why, ty, goods, b = ev
            if why == 'stale-handle':
                ifs = [model.port(*g) for g in goods]
                stale = model.port(*b)
                # make it stale: remove the component (or facility) that owns it, bypassing nothing - a real API call
                _remove_owner_of(model, stale)
                model._stale_removed = True
                ifs.append(stale)
            elif why == 'same-twice':
                ifs = [model.port(*g) for g in goods] + [model.port(*b), model.port(*b)]
            else:
                ifs = [model.port(*g) for g in goods] + [resolve(why, b)]
            t.add_network_service(name='sx', nstype=ServiceType[ty], interfaces=ifs)
        elif kind == 'mirror-bad-to-interface':
            _, _, why, b = ev
            if why == 'stale-handle':
                raise _Skip()
            t.add_port_mirror_service(name='pmx', from_interface_name='whatever', to_interface=resolve(why, b))
        else:
            _, _, s, why, b = ev
            model.service(s).connect_interface(resolve(why, b))
    elif kind == 'connect-derived-name-too-long':
        # legitimate prefix: a node with a long (valid) name and a NIC; connecting its port derives names beyond the limit
        n = t.add_node(name='n' * 246, site='S1')
        c = n.add_component(name='cl', model_type=ComponentModelType.SharedNIC_ConnectX_6)
        model._prefix_ok = True
        model.service(ev[2]).connect_interface(list(c.interface_list)[0])
    elif kind == 'peer-self':
        a = model.service(ev[2])
        a.peer(a)
    elif kind == 'peer-stale-service':
        a, b = model.service(ev[2]), model.service(ev[3])
        t.remove_network_service(ev[3])          # a real call; the handle b taken before now dangles
        model._stale_removed = True
        a.peer(b)
    elif kind == 'peer-twice':
        a, b = model.service(ev[2]), model.service(ev[3])
        a.peer(b)
        model._prefix_ok = True      # the first peer() may legitimately succeed; the second must fail
        a2, b2 = model.service(ev[2]), model.service(ev[3])
        a2.peer(b2)
    elif kind == 'sub-no-vlan':
        model.port(*ev[2]).add_child_interface(name='subx')
    elif kind == 'sub-duplicate-name':
        model.port(*ev[2]).add_child_interface(name=ev[3], labels=Labels(vlan='999'))
    elif kind == 'sub-duplicate-vlan':
        model.port(*ev[2]).add_child_interface(name='subx', labels=Labels(vlan=ev[3]))
    elif kind == 'sub-bad-property':
        model.port(*ev[2]).add_child_interface(name='subx', labels=Labels(vlan='998'), boot_script=BAD)
    elif kind == 'sub-on-shared-port':
        model.port(*ev[2]).add_child_interface(name='subx', labels=Labels(vlan='997'))
    elif kind == 'link-kth-interface':
        _, _, pos, ty, goods, b = ev
        ifs = [model.port(*g) for g in goods]
        stale = model.port(*b)
        if model.t.get_owner_node(stale).name in {g[0] for g in goods}:
            raise _Skip()
        _remove_owner_of(model, stale)            # a real API call; the handle taken before now dangles
        model._stale_removed = True
        ifs.insert(pos, stale) if pos == 0 else ifs.append(stale)
        t.add_link(name='lx', node_id=nid('lx'), ltype=LinkType[ty], interfaces=ifs)
    elif kind == 'link-bad-property':
        t.add_link(name='lx', node_id='id-lx', ltype=LinkType.Patch, interfaces=[model.port(*r) for r in ev[2]], boot_script=BAD)
    elif kind == 'link-no-type':
        t.add_link(name='lx', node_id='id-lx', ltype=None, interfaces=[model.port(*r) for r in ev[2]])
    elif kind == 'link-duplicate-id':
        t.add_link(name='lxid', node_id=ev[2], ltype=LinkType.Patch, interfaces=[model.port(*r) for r in ev[3]])
    elif kind == 'link-duplicate-name':
        t.add_link(name=ev[2], node_id='id-lx', ltype=LinkType.Patch, interfaces=[model.port(*r) for r in ev[3]])
    elif kind == 'sub-node-without-id':
        t.add_node(name='nx', site='S1', ntype=NodeType.Server)
    elif kind == 'setprops-bad-among-good':
        tg, pos = ev[2], ev[3]
        if tg[0] == 'node':
            e = model.node(tg[1])
        elif tg[0] == 'service':
            e = model.service(tg[1])
        elif tg[0] == 'port':
            e = model.port(tg[1], tg[2])
        elif tg[0] == 'component':
            e = model.node(tg[1]).components[tg[2]]
        else:
            e = t.links[tg[1]]
        good = [('details', 'new details'), ('capacities', Capacities(unit=3))]
        bad = ('labels', 'not-a-labels-object')
        # (a new name among the values: the one property that a handle remembers, and that the collections are keyed by)
        new_name = ('name', 'renamed-in-bulk')
        # (None asks for a property to be taken away: the name cannot be, so nothing else may be either)
        order = {'unset-then-unset-name': [('capacities', None), ('labels', None), ('name', None)],
                 'first': [bad] + good, 'middle': good[:1] + [bad] + good[1:], 'last': good + [bad],
                 'with-name-first': [new_name] + good + [bad], 'with-name-last': [bad] + good + [new_name]}[pos]
        e.set_properties(**dict(order))
    elif kind == 'facility-duplicate-interface-names':
        t.add_facility(name='fdup', site='S1', node_id=nid('fdup'),
                       interfaces=[('same', Labels(vlan='1'), Capacities(bw=1)), ('same', Labels(vlan='2'), Capacities(bw=1))])
    elif kind == 'type-outside-vocabulary':
        model.node(ev[2]).set_property('type', 'Garbage')
    elif kind == 'type-of-another-kind':
        model.node(ev[2]).set_property('type', fu.ComponentType.GPU)
    elif kind == 'link-same-interface-twice':
        i = model.port(*ev[2])
        t.add_link(name='ltwice', node_id=nid('ltwice'), ltype=LinkType.Patch, interfaces=[i, i])
    elif kind == 'rename-bad-name':
        e = model.node(ev[2])
        old = e.name
        model._handle_note = None
        try:
            e.rename('bad name!')
        except Exception:
            if e.name != old:
                model._handle_note = f'the handle now reports name {e.name!r}, the model still holds {old!r}'
            raise
    elif kind == 'type-to-service-port':
        model.port(*ev[2]).set_property('type', InterfaceType.ServicePort)
    elif kind == 'type-to-sub-interface':
        p_ = model.port(*ev[2])
        if p_.type == InterfaceType.SubInterface:
            raise _Skip()
        p_.set_property('type', InterfaceType.SubInterface)
    elif kind == 'type-service-port-to-sub-interface':
        sp = [i for i in model.service(ev[2]).interface_list if i.name == ev[3]][0]
        sp.set_property('type', InterfaceType.SubInterface)
    elif kind == 'type-sub-interface-to-service-port':
        sub = [i for i in model.port(*ev[2]).interface_list if i.name == ev[3]][0]
        sub.set_properties(type=InterfaceType.ServicePort)
    elif kind == 'type-from-service-port':
        sp = [i for i in model.service(ev[2]).interface_list if i.name == ev[3]][0]
        sp.set_properties(type=InterfaceType.TrunkPort)
    elif kind == 'link-over-service-port':
        sp = [i for i in model.service(ev[2]).interface_list if i.name == ev[3]][0]
        ifs = [sp, model.port(*ev[4])]
        t.add_link(name='lsp', node_id=nid('lsp'), ltype=LinkType.Patch, interfaces=tuple(reversed(ifs)) if len(ev) > 5 else ifs)
    elif kind == 'service-interfaces-not-a-list':
        if ev[2] == 'number':
            arg = 5
        else:
            def gen(i=model.port(*ev[3])):
                yield i
                raise RuntimeError('the caller\'s generator failed')
            arg = gen()
        t.add_network_service(name='sgen', nstype=ServiceType.L2Bridge, interfaces=arg)
    elif kind == 'link-non-interface':
        t.add_link(name='lnode', node_id=nid('lnode'), ltype=LinkType.Patch, interfaces=[model.node(ev[2]), model.port(*ev[3])])
    elif kind == 'sub-duplicate-via-second-handle':
        h1, h2 = model.port(*ev[2]), model.port(*ev[2])
        h1.add_child_interface(name='subD', node_id=nid('subD-1'), labels=Labels(vlan='310'))
        model._prefix_ok = True
        h2.add_child_interface(name='subD', node_id=nid('subD-2'), labels=Labels(vlan='311'))
    elif kind == 'sub-service-interface-twice-one-handle':
        sf = list(model.node(ev[2]).network_services.values())[0]
        sf.add_interface(name='twice', node_id='id-twice-1', itype=InterfaceType.TrunkPort)
        model._prefix_ok = True
        sf.add_interface(name='twice', node_id='id-twice-2', itype=InterfaceType.TrunkPort)
    elif kind == 'sub-component':
        _, _, w, why, taken = ev
        args = dict(name='nicx', node_id='id-nicx', model_type=ComponentModelType.SmartNIC_ConnectX_6,
                    network_service_node_id='id-nicx-sf', interface_node_ids=['id-nicx-p1', 'id-nicx-p2'],
                    interface_labels=[Labels(bdf='0000:42:00.0'), Labels(bdf='0000:42:00.1')])
        if why == 'own-id':
            args['node_id'] = taken
        elif why == 'service-id':
            args['network_service_node_id'] = taken
        elif why == 'interface-id-0':
            args['interface_node_ids'] = [taken, 'id-nicx-p2']
        elif why == 'interface-id-1':
            args['interface_node_ids'] = ['id-nicx-p1', taken]
        elif why == 'same-interface-id-twice':
            args['interface_node_ids'] = ['id-nicx-p1', 'id-nicx-p1']
        elif why == 'no-interface-ids':
            args['interface_node_ids'] = None
        elif why == 'short-interface-ids':
            args['interface_node_ids'] = ['id-nicx-p1']
        elif why == 'short-labels':
            args['interface_labels'] = [Labels(bdf='0000:42:00.0')]
        elif why == 'bad-property':
            args['boot_script'] = BAD
        model.node(w).add_component(**args)
    elif kind == 'peer-bad-argument':
        a, b = model.service(ev[2]), model.service(ev[3])
        why = ev[4]
        if why == 'bad-labels':
            a.peer(b, labels='asn=12345')
        elif why == 'bad-labels-among-good':
            a.peer(b, capacities=Capacities(bw=1), labels='asn=12345')
        else:
            a.peer(b, node_id=b.node_id)
    else:
        raise AssertionError(ev)


class _Skip(Exception):
    pass


def _remove_owner_of(model, iface):
    t = model.t
    own = t.get_owner_node(iface)
    par = t.get_parent_element(iface)          # network service (or parent port for a sub-interface)
    if iface.type == InterfaceType.SubInterface:
        par.remove_child_interface(name=iface.name)
        return
    comp = t.get_parent_element(par)
    from fim.user.component import Component
    if isinstance(comp, Component):
        own.remove_component(comp.name)
    elif own.type == NodeType.Facility:
        t.remove_facility(name=own.name)
    else:
        t.remove_node(own.name)


# ------------------------------------------------------------------------------------------------ wiring into the Model interface
def _events_with_probes(self):
    ev = TopoModel._base_events(self)
    if 'c09' in self.oracles:
        ev = ev + fail_events(self)
    elif 'c07' in self.oracles:
        # calls that must be refused because they would break a rule (duplicate names / ids): if one of them is accepted
        # the invariants judge the resulting model
        # ... and, with all_probes, every other refused call too: a refusal that leaves something behind (a port without a
        # peer, a half-made service) is judged by the same invariants
        ev = ev + [e for e in fail_events(self) if e[1] in GUARD_PROBES or getattr(self, 'all_probes', False)]
    return ev


GUARD_PROBES = {'node-duplicate-name', 'node-duplicate-id', 'facility-duplicate-name', 'switch-duplicate-name',
                'service-duplicate-id', 'service-duplicate-name', 'component-duplicate-name', 'component-duplicate-id',
                'storage-duplicate-name', 'sub-duplicate-name', 'sub-duplicate-vlan', 'peer-twice', 'link-duplicate-name',
                'facility-duplicate-interface-names', 'type-outside-vocabulary', 'type-of-another-kind', 'link-non-interface', 'link-same-interface-twice',
                'link-over-service-port', 'service-interfaces-not-a-list', 'type-to-service-port', 'type-from-service-port', 'type-to-sub-interface',
                'type-service-port-to-sub-interface', 'type-sub-interface-to-service-port',
                'sub-duplicate-via-second-handle', 'sub-service-interface-twice-one-handle'}


def _apply(self, ev):
    self._last_ev = ev
    if ev[0] != 'fail':
        return TopoModel._base_apply(self, ev)
    self.handles = {}
    self._stale_removed = False
    self._prefix_ok = False
    try:
        _do_fail(self, ev)
        return ('ok', None)
    except _Skip:
        return ('skip',)
    except AssertionError as e:
        return ('raise', 'AssertionError', str(e)[:100])
    except Exception as e:
        return ('raise', type(e).__name__, str(e)[:100])


def _check(self, pre, ev, outcome):
    v = []
    if 'c08' in self.oracles:
        v += c08_check(self, pre, ev, outcome)
    if 'c09' in self.oracles and outcome[0] == 'raise' and ev[:2] == ('fail', 'rename-bad-name') and getattr(self, '_handle_note', None):
        # the element through which the refused call was made is part of what the caller observes
        v.append(('c09/rename-bad-name/handle-keeps-rejected-name', f'{ev} raised {outcome[1:]}: {self._handle_note}'))
    if 'c09' in self.oracles and outcome[0] == 'raise':
        if ev[0] == 'fail' and (getattr(self, '_stale_removed', False) or getattr(self, '_prefix_ok', False)):
            # the probe first performed a legitimate successful call (removing an owner / the first peer()); compare with
            # the state right after that call instead of the pre-state
            pre_exact = self._after_prefix(ev)
        else:
            pre_exact = pre.exact()
        post = self.raw()
        if post.exact() != pre_exact:
            pn, pe = pre_exact[0], pre_exact[1]
            qn, qe = post.exact()[0], post.exact()[1]
            left = sorted(f'{post.cls(x)}:{post.name(x)}' for x in set(qn) - set(pn))
            gone = sorted(set(pn) - set(qn))
            changed = sorted(x for x in set(pn) & set(qn) if pn[x] != qn[x])
            call = ev[1] if ev[0] == 'fail' else ev[0]
            detail = ev[2] if (ev[0] == 'fail' and ev[1] in ('service-kth-interface', 'mirror-bad-to-interface', 'connect-bad')) else ''
            if ev[0] == 'fail' and ev[1] == 'sub-component':
                detail = ev[3]
            if ev[0] == 'fail' and ev[1] == 'peer-bad-argument':
                detail = ev[4]
            if ev[0] == 'fail' and ev[1] == 'setprops-bad-among-good':
                detail = f'{ev[2][0]}/{ev[3]}'
            v.append((f'c09/{call}' + (f'/{detail}' if detail else ''),
                      f'{ev} raised {outcome[1:]} but the model changed: left behind {left}, removed {gone}, '
                      f'properties changed on {changed}, edges {len(qe)} vs {len(pe)}'))
    return v


def _after_prefix(self, ev):
    """state after the legitimate prefix of a two-step probe, recomputed on a scratch restore"""
    snap_now = self.snapshot()
    self.restore(self._pre_snap)
    if ev[1] == 'peer-twice':
        self.service(ev[2]).peer(self.service(ev[3]))
    elif ev[1] == 'peer-stale-service':
        self.t.remove_network_service(ev[3])
    elif ev[1] == 'connect-derived-name-too-long':
        n = self.t.add_node(name='n' * 246, site='S1')
        n.add_component(name='cl', model_type=ComponentModelType.SharedNIC_ConnectX_6)
    elif ev[1] == 'sub-duplicate-via-second-handle':
        sub = self.flavour != 'exp'
        self.port(*ev[2]).add_child_interface(name='subD', node_id='id-subD-1' if sub else None, labels=Labels(vlan='310'))
    elif ev[1] == 'sub-service-interface-twice-one-handle':
        list(self.node(ev[2]).network_services.values())[0].add_interface(name='twice', node_id='id-twice-1', itype=InterfaceType.TrunkPort)
    else:
        stale = self.port(*ev[5])
        _remove_owner_of(self, stale)
    ex = self.raw().exact()
    self.restore(snap_now)
    return ex


def _invariant(self):
    v = []
    sh = getattr(self, 'shadow', None)
    if sh is not None and Raw(sh[0]).exact() != sh[1]:
        now = Raw(sh[0])
        gone = sorted(set(sh[1][0]) - set(now.nodes))
        call = getattr(self, '_last_ev', ('?',))
        v.append((f'c08/other-model-in-the-store-changed/{call[0] if call[0] != "fail" else call[1]}',
                  f'{call}: the older model {sh[0]} (same element ids, another graph id) lost {gone[:4]} / changed'))
    raw = self.raw()
    inv, scopes = c07_invariants(raw)
    # name the call that produced a duplicate name (a known finding is tied to its call site)
    last = getattr(self, '_last_ev', None)
    call = (last[1] if last[0] == 'fail' else last[0]) if last else 'root'
    inv = [((fp + '/' + call) if fp.startswith('c07/name-scope/') else fp, msg) for fp, msg in inv]
    # a state that already violates the structural rules is not expanded further (its futures only cascade)
    self._broken = bool(inv)
    if 'c07' in self.oracles:
        v += inv
        v += c07_views(self, raw, scopes)
    return v


def _observe(self):
    self._pre_snap = self.snapshot()
    return self.raw()


def _prune(self, ev, outcome):
    return ev[0] == 'fail' or getattr(self, '_broken', False)


TopoModel._base_events = TopoModel.events
TopoModel._base_apply = TopoModel.apply
TopoModel.events = _events_with_probes
TopoModel.apply = _apply
TopoModel.check = _check
TopoModel.invariant = _invariant
TopoModel.observe = _observe
TopoModel.prune = _prune
TopoModel._after_prefix = _after_prefix
