"""E3 - stateless, preemption-bounded exploration of real threads under a cooperative scheduler (CHESS style).

Real threading.Thread objects run real library code. Exactly one managed thread runs at any time; the baton is handed
over only at scheduling points:
  * before every "shared-access" bytecode instruction of the registered code objects (sys.monitoring INSTRUCTION
    local events; CPython 3.12),
  * at acquire/release of the ModelLock that replaces the library's threading.Lock.
A schedule is the list of choice indices taken at the points where more than one thread was enabled; every schedule is
replayable. Iterative context bounding explores all schedules with at most `bound` preemptions.
"""
import dis
import sys
import threading

mon = sys.monitoring
STALL_SECONDS = 120
TOOL = mon.DEBUGGER_ID

# instructions that can touch state shared between threads; everything else only moves values between the frame's
# locals and its stack and therefore commutes with every step of another thread (partial-order reduction argument)
SHARED_OPS = {'LOAD_ATTR', 'STORE_ATTR', 'DELETE_ATTR', 'BINARY_SUBSCR', 'STORE_SUBSCR', 'DELETE_SUBSCR',
              'CALL', 'CALL_FUNCTION_EX', 'CALL_KW', 'LOAD_DEREF', 'STORE_DEREF'}


class _Abort(BaseException):
    pass


class Deadlock(Exception):
    pass


class ModelLock:
    """drop-in for threading.Lock whose blocking happens inside the scheduler"""

    def __init__(self, sched):
        self.sched = sched
        self.owner = None
        self.acquires = 0
        self.releases = 0
        self.errors = []

    def acquire(self, blocking=True, timeout=-1):
        s = self.sched
        t = s.current()
        if t is None:                      # unmanaged (set-up / tear-down in the controller thread)
            if self.owner is not None:
                raise RuntimeError('ModelLock: unmanaged thread would block')
            self.owner = 'main'
            self.acquires += 1
            return True
        s.point(('acquire', id(self)))
        while self.owner is not None:
            s.block_on(self)
        self.owner = t
        self.acquires += 1
        return True

    def release(self):
        if self.owner is None:
            self.errors.append('release of an unlocked lock')
            raise RuntimeError('release unlocked lock')
        self.owner = None
        self.releases += 1
        s = self.sched
        if s.current() is not None:
            s.point(('release', id(self)))

    def locked(self):
        return self.owner is not None

    def __enter__(self):
        self.acquire()
        return self

    def __exit__(self, *a):
        self.release()


class Execution:
    def __init__(self):
        self.choices = []        # choice index taken at each branching point
        self.points = []         # per branching point: (enabled tids in canonical order, running_still_enabled)
        self.results = {}        # tid -> ('ok', value) | ('raise', repr)
        self.deadlock = False
        self.npoints = 0
        self.trace = []


class Scheduler:
    def __init__(self, code_objects):
        self.codes = list(code_objects)
        self.offsets = {}
        for c in self.codes:
            self.offsets[c] = {i.offset for i in dis.get_instructions(c) if i.opname in SHARED_OPS}
        self._installed = False
        self.threads = {}
        self.ctrl = threading.Semaphore(0)
        self.tls = threading.local()

    # ------------------------------------------------------------------ monitoring
    def install(self):
        if self._installed:
            return
        try:
            mon.use_tool_id(TOOL, 'fimmc')
        except ValueError:
            mon.free_tool_id(TOOL)
            mon.use_tool_id(TOOL, 'fimmc')
        mon.register_callback(TOOL, mon.events.INSTRUCTION, self._on_instruction)
        for c in self.codes:
            mon.set_local_events(TOOL, c, mon.events.INSTRUCTION)
        self._installed = True

    def uninstall(self):
        if not self._installed:
            return
        for c in self.codes:
            mon.set_local_events(TOOL, c, 0)
        mon.register_callback(TOOL, mon.events.INSTRUCTION, None)
        mon.free_tool_id(TOOL)
        self._installed = False

    def _on_instruction(self, code, offset):
        offs = self.offsets.get(code)
        if offs is None or offset not in offs:
            return mon.DISABLE
        if getattr(self.tls, 'tid', None) is None:
            return None
        self.point(('ins', code.co_name, offset))
        return None

    # ------------------------------------------------------------------ scheduling core
    # Exactly one managed thread runs at a time, so the scheduler state needs no locking of its own: every decision is
    # taken by the thread that holds the baton (or by the controller before the first hand-over). A context switch
    # (two semaphore operations) happens only when the decision is to run a different thread.
    def current(self):
        return getattr(self.tls, 'tid', None)

    def _enabled(self):
        return [t for t, st in self.threads.items()
                if not st['done'] and (st['blocked'] is None or st['blocked'].owner is None)]

    def _decide(self, running):
        """returns the tid to run next, or None when nothing can run; records the choice if it is a branch point"""
        x = self.x
        enabled = self._enabled()
        if not enabled:
            if any(not st['done'] for st in self.threads.values()):
                x.deadlock = True
            return None
        if running in enabled:
            order = [running] + [t for t in enabled if t != running]
            rse = True
        else:
            order = enabled
            rse = False
        c = 0
        if len(order) > 1:
            k = len(x.choices)
            if k < len(self.prefix):
                c = self.prefix[k]
                if c >= len(order):
                    self.diverged = f'choice {c} of {len(order)} at branch point {k}'
                    c = 0
            x.choices.append(c)
            x.points.append((len(order), rse))
        x.npoints += 1
        if x.npoints > self.max_points:
            self.diverged = 'execution exceeded max_points (livelock?)'
            self.abort = True
        return order[c]

    def _switch(self, me, nxt):
        """hand the baton from thread `me` to `nxt` (or to the controller when nxt is None) and wait for it to return"""
        st = self.threads[me]
        if nxt is None:
            self.ctrl.release()
        else:
            self.threads[nxt]['sem'].release()
        st['sem'].acquire()
        if self.abort:
            raise _Abort()

    def point(self, what):
        tid = self.current()
        if tid is None or self.tls.in_point:
            return
        self.tls.in_point = True
        try:
            if self.abort:
                raise _Abort()
            nxt = self._decide(tid)
            if nxt != tid:
                self._switch(tid, nxt)
        finally:
            self.tls.in_point = False

    def block_on(self, lock):
        tid = self.current()
        st = self.threads[tid]
        st['blocked'] = lock
        self.tls.in_point = True
        try:
            nxt = self._decide(tid)          # tid is not enabled now, so this never returns tid
            self._switch(tid, nxt)
        finally:
            self.tls.in_point = False
            st['blocked'] = None

    def _body(self, tid, fn):
        self.tls.tid = tid
        self.tls.in_point = False
        st = self.threads[tid]
        st['sem'].acquire()          # wait to be scheduled for the first time
        try:
            if self.abort:
                raise _Abort()
            st['result'] = ('ok', fn())
        except _Abort:
            st['result'] = ('aborted', None)
        except BaseException as e:   # noqa
            st['result'] = ('raise', f'{type(e).__name__}: {e}')
        finally:
            self.tls.in_point = True
            st['done'] = True
            self.tls.tid = None
            if self.abort:
                self.ctrl.release()
            else:
                nxt = self._decide(tid)
                if nxt is None:
                    self.ctrl.release()
                else:
                    self.threads[nxt]['sem'].release()

    # ------------------------------------------------------------------ controller side
    def run(self, bodies, prefix, max_points=20000):
        """one execution: replay `prefix`, then always take choice 0"""
        self.abort = False
        self.diverged = None
        self.prefix = list(prefix)
        self.max_points = max_points
        self.threads = {}
        x = self.x = Execution()
        for tid, fn in enumerate(bodies):
            st = dict(sem=threading.Semaphore(0), done=False, blocked=None, result=None)
            self.threads[tid] = st
            th = threading.Thread(target=self._body, args=(tid, fn), daemon=True)
            st['thread'] = th
            th.start()
        first = self._decide(None)
        self.threads[first]['sem'].release()
        # an execution takes milliseconds; a managed thread that blocks on something the scheduler does not own (a real lock
        # added to the code under test) would otherwise stop the exploration for good
        if not self.ctrl.acquire(timeout=STALL_SECONDS):
            self.abort = True
            raise RuntimeError(f'scheduler stalled for {STALL_SECONDS}s: a managed thread is blocked outside the scheduler '
                               f'(a lock of the code under test that the harness does not substitute?)')
        if x.deadlock or self.abort or any(not st['done'] for st in self.threads.values()):
            self._kill()
        for t, st in self.threads.items():
            st['thread'].join(timeout=10)
            x.results[t] = st['result']
        if self.diverged:
            raise RuntimeError(f'schedule replay diverged: {self.diverged}')
        if len(x.choices) < len(self.prefix):
            raise RuntimeError(f'schedule replay diverged: prefix has {len(self.prefix)} choices, execution had '
                               f'{len(x.choices)} branch points')
        return x

    def _kill(self):
        self.abort = True
        for st in self.threads.values():
            if not st['done']:
                st['sem'].release()
        for st in self.threads.values():
            st['thread'].join(timeout=5)
        # drain controller wake-ups produced by aborting threads
        while self.ctrl.acquire(blocking=False):
            pass


def explore(sched, make_bodies, check, bound, max_executions=None):
    """Iterative context bounding: all schedules with <= bound preemptions.
    make_bodies() -> (list of callables, context) builds a fresh world for one execution;
    check(execution, context) -> list of (fp, msg).
    Returns dict(executions, by_bound, distinct_outcomes, violations[(fp,msg,schedule)], max_points, deadlocks, capped)."""
    stats = dict(executions=0, violations=[], outcomes=set(), deadlocks=0, max_branch_points=0, capped=False,
                 max_steps=0)

    def preemptions_before(x, i):
        n = 0
        for j in range(i):
            if x.points[j][1] and x.choices[j] != 0:
                n += 1
        return n

    stack = [[]]
    while stack:
        prefix = stack.pop()
        bodies, ctx = make_bodies()
        x = sched.run(bodies, prefix)
        stats['executions'] += 1
        stats['max_branch_points'] = max(stats['max_branch_points'], len(x.points))
        stats['max_steps'] = max(stats['max_steps'], x.npoints)
        if x.deadlock:
            stats['deadlocks'] += 1
        for fp, msg in check(x, ctx):
            stats['violations'].append((fp, msg, list(x.choices)))
        stats['outcomes'].add(ctx.get('outcome_key'))
        if prefix:
            stats['last_schedule'] = list(x.choices)
        if max_executions and stats['executions'] >= max_executions:
            stats['capped'] = True
            break
        for i in range(len(prefix), len(x.points)):
            nalt, rse = x.points[i]
            cost = preemptions_before(x, i)
            if rse:
                cost += 1        # switching away from a runnable thread is a preemption
            if cost > bound:
                continue
            for alt in range(1, nalt):
                stack.append(list(x.choices[:i]) + [alt])
    return stats
