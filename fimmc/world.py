"""World state: the two in-memory store singletons + the uuid seam.

Snapshot / restore / reset of everything mutable the NetworkX side of the library owns, so that
explicit-state search can execute every (state, event) pair on the real code.
"""
import uuid
import logging
import threading
from collections import defaultdict

import networkx as nx

from fim.graph.networkx_property_graph import NetworkXGraphStorage, NetworkXGraphImporter
from fim.graph.networkx_property_graph_disjoint import NetworkXGraphStorageDisjoint, \
    NetworkXGraphImporterDisjoint, constant_factory

logging.disable(logging.CRITICAL)

# --------------------------------------------------------------------------------------------
# uuid seam: library-generated ids become a function of the history
# --------------------------------------------------------------------------------------------
_real_uuid4 = uuid.uuid4


class _UuidSeam:
    def __init__(self):
        self.counter = 0

    def __call__(self):
        self.counter += 1
        return uuid.UUID(int=(0xF1 << 120) | self.counter)


UUID_SEAM = _UuidSeam()


def install_uuid_seam():
    uuid.uuid4 = UUID_SEAM
    UUID_SEAM.counter = 0


def uninstall_uuid_seam():
    uuid.uuid4 = _real_uuid4


def is_generated_id(s) -> bool:
    return isinstance(s, str) and s.startswith('f1000000-0000-0000-0000-')


# --------------------------------------------------------------------------------------------
# stores
# --------------------------------------------------------------------------------------------
def shared_importer() -> NetworkXGraphImporter:
    return NetworkXGraphImporter()


def disjoint_importer() -> NetworkXGraphImporterDisjoint:
    return NetworkXGraphImporterDisjoint()


def shared_store():
    NetworkXGraphStorage()
    return NetworkXGraphStorage.storage_instance


def disjoint_store():
    NetworkXGraphStorageDisjoint()
    return NetworkXGraphStorageDisjoint.storage_instance


def reset_shared():
    # a fresh store is whatever the library's own constructor builds (the harness does not re-create its containers)
    NetworkXGraphStorage.storage_instance = None
    shared_store()


def reset_disjoint():
    NetworkXGraphStorageDisjoint.storage_instance = None
    disjoint_store()


def _lock_ok(lock):
    try:
        return not lock.locked()
    except Exception:
        return True


def reset_all():
    reset_shared()
    reset_disjoint()
    UUID_SEAM.counter = 0


def snapshot_shared():
    st = shared_store()
    return st.graphs.copy(), st.start_id


def restore_shared(snap):
    st = shared_store()
    g, sid = snap
    st.graphs = g.copy()
    st.start_id = sid


def snapshot_disjoint():
    st = disjoint_store()
    return {k: g.copy() for k, g in st.graphs.items()}, dict(st.graph_node_ids)


def restore_disjoint(snap):
    st = disjoint_store()
    gs, ids = snap
    # keep the containers the library created (their default factories are the library's business); refill them
    st.graphs.clear()
    for k, g in gs.items():
        st.graphs[k] = g.copy()
    st.graph_node_ids.clear()
    st.graph_node_ids.update(ids)


def snapshot_all():
    return snapshot_shared(), snapshot_disjoint(), UUID_SEAM.counter


def restore_all(snap):
    restore_shared(snap[0])
    restore_disjoint(snap[1])
    UUID_SEAM.counter = snap[2]
