"""Runner: python -m fimmc.run <ID> [--tier quick|thorough] [--replay <path>]

exit 0  property held on everything explored (open known findings are printed as KNOWN-FINDING lines)
exit 1  + line "VIOLATION property=<id> replay=<path>" for each violation not listed in known_findings.json
exit 2  harness problem (internal error, nondeterministic replay, vacuous exploration) - never a verdict
"""
import os
import sys
import json
import time
import argparse
import importlib
import subprocess
import fnmatch

ROOT = os.path.dirname(os.path.dirname(os.path.abspath(__file__)))
sys.path.insert(0, ROOT)

from fimmc.engine import Report, replay_e1, _tuplify      # noqa: E402
from fimmc.canon import jsonable, digest                   # noqa: E402

EVID_DIR = os.environ.get('FIMMC_EVIDENCE_DIR') or os.path.join(ROOT, 'evidence')
REPLAY_DIR = os.environ.get('FIMMC_REPLAY_DIR') or os.path.join(ROOT, 'replays')
KNOWN = os.path.join(ROOT, 'known_findings.json')
SCHEMA = '/root/.vp/EVIDENCE.schema.json'


def load_known(pid):
    if not os.path.exists(KNOWN):
        return []
    with open(KNOWN) as f:
        data = json.load(f)
    return [e for e in data.get('findings', []) if e.get('property') == pid and e.get('status') == 'open']


def match_known(known, fp):
    for e in known:
        pat = e['fingerprint']
        if fp == pat or fnmatch.fnmatchcase(fp, pat):
            return e
    return None


def write_evidence(report: Report, level, coverage, violations_n):
    os.makedirs(EVID_DIR, exist_ok=True)
    ev = dict(property_id=report.pid, tier=report.tier, seed=report.seed, level=level,
              coverage=jsonable(coverage), assumptions=list(report.assumptions),
              wall_s=round(time.time() - report.t0, 3), violations=violations_n)
    path = os.path.join(EVID_DIR, f'{report.pid}.json')
    tmp = path + '.tmp'
    with open(tmp, 'w') as f:
        json.dump(ev, f, indent=1, sort_keys=True)
    os.replace(tmp, path)
    validate_evidence(path)
    return path


def validate_evidence(path):
    code = ("import json,sys,jsonschema;"
            "s=json.load(open(sys.argv[1]));d=json.load(open(sys.argv[2]));"
            "jsonschema.Draft202012Validator(s).validate(d)")
    if not os.path.exists(SCHEMA):
        return
    try:
        r = subprocess.run(['python3-vt', '-c', code, SCHEMA, path], capture_output=True, text=True, timeout=60)
    except FileNotFoundError:
        return
    if r.returncode != 0:
        print('EVIDENCE-INVALID', path, r.stderr[-800:], file=sys.stderr)
        sys.exit(2)


def summarise(report: Report, level):
    """merge per-group coverage into the keys the evidence schema asks for"""
    cov = dict(groups=report.groups, notes=report.notes)
    e1 = [g for g in report.groups.values() if g['kind'] in ('E1', 'E3')]
    e2 = [g for g in report.groups.values() if g['kind'] in ('E2', 'E4')]
    samples = []
    for name, g in report.groups.items():
        for s in g.get('samples', [])[:3]:
            samples.append({'group': name, 'case': s})
    cov['samples'] = samples[:24]
    evaluations = sum(g.get('evaluations', 0) for g in e2) + sum(g.get('transitions', 0) for g in e1)
    dn = sum(g.get('distinct_nontrivial', 0) for g in e2) + sum(g.get('states', 0) for g in e1)
    cov['evaluations'] = evaluations
    cov['distinct_nontrivial'] = dn
    cov['rule'] = ' || '.join(f"{n}: {g.get('rule', '')}" for n, g in report.groups.items())
    cov['exhaustive'] = all(g.get('exhaustive', True) and not g.get('partial_next_level') for g in
                            report.groups.values())
    if e1:
        cov['states'] = sum(g['states'] for g in e1)
        cov['transitions'] = sum(g['transitions'] for g in e1)
        # every transition is an execution of the implementation itself (no separate model to replay)
        cov['traces_validated_against_impl'] = cov['transitions']
        cov['depth_completed'] = {n: g.get('depth_completed') for n, g in report.groups.items()
                                  if g['kind'] in ('E1', 'E3')}
    return cov


def main(argv=None):
    ap = argparse.ArgumentParser()
    ap.add_argument('pid')
    ap.add_argument('--tier', default=os.environ.get('VERIF_TIER', 'quick'), choices=['quick', 'thorough'])
    ap.add_argument('--replay')
    ap.add_argument('--seed', type=int, default=int(os.environ.get('VERIF_SEED', '0') or 0))
    args = ap.parse_args(argv)
    pid = args.pid.upper()
    if os.environ.get('PYTHONHASHSEED') != '0':
        # own the string-hash nondeterminism: re-exec with a fixed hash seed
        env = dict(os.environ, PYTHONHASHSEED='0')
        os.execve(sys.executable, [sys.executable, '-m', 'fimmc.run'] + (argv or sys.argv[1:]), env)
    mod = importlib.import_module(f'checks.{pid.lower()}')
    if args.replay:
        return do_replay(mod, pid, args.replay)
    report = Report(pid, args.tier, args.seed)
    mod.run(report)
    level = getattr(mod, 'LEVEL', 'exploration')
    known = load_known(pid)
    new = []
    known_hit = {}
    for fp, v in sorted(report.violations.items()):
        e = match_known(known, fp)
        if e is not None:
            known_hit.setdefault(e['fingerprint'], (e, v))
        else:
            new.append(v)
    cov = summarise(report, level)
    cov['known_findings_observed'] = sorted(known_hit)
    cov['violation_fingerprints'] = sorted(v['fp'] for v in new)
    write_evidence(report, level, cov, len(new))
    for fpat, (e, v) in sorted(known_hit.items()):
        print(f"KNOWN-FINDING: property={pid} {e['what']} [fingerprint {fpat}; seen {v['count']}x]")
    rc = 0
    unreproducible = []
    for v in new:
        path = write_replay(pid, v)
        # a violation must reproduce from a plain replay (twice) before it is reported
        if not confirm(mod, v):
            unreproducible.append((v, path))
            continue
        print(f'VIOLATION property={pid} replay={path}')
        print(f'  fingerprint={v["fp"]} count={v["count"]}\n  {v["msg"]}')
        rc = 1
    if report.internal_errors:
        for g, case, err in report.internal_errors[:5]:
            print(f'HARNESS-ERROR group={g} case={json.dumps(case)[:300]}\n{err}', file=sys.stderr)
    for v, path in unreproducible:
        print(f'HARNESS-ERROR: violation {v["fp"]} did not reproduce on replay ({path})', file=sys.stderr)
    if rc == 0 and (report.internal_errors or unreproducible):
        # nothing confirmed: errors of the harness itself leave the property undecided
        print(f'{pid}: {len(report.internal_errors)} harness errors, {len(unreproducible)} unreproducible observations - no verdict',
              file=sys.stderr)
        return 2
    if rc == 1 and (report.internal_errors or unreproducible):
        print(f'{pid}: besides the confirmed violation(s): {len(report.internal_errors)} harness errors, '
              f'{len(unreproducible)} unreproducible observations (usually consequences of the same defect)', file=sys.stderr)
    if rc == 0 and report.vacuity_failures:
        for w in report.vacuity_failures:
            print(f'VACUOUS: {pid}: exploration did not exercise: {w}', file=sys.stderr)
        return 2
    tot = {n: {k: g.get(k) for k in ('evaluations', 'distinct_nontrivial', 'states', 'transitions',
                                     'depth_completed') if g.get(k) is not None}
           for n, g in report.groups.items()}
    print(f'{pid} tier={args.tier} seed={args.seed} rc={rc} wall={time.time() - report.t0:.1f}s coverage={tot}')
    return rc


def write_replay(pid, v):
    d = os.path.join(REPLAY_DIR, pid)
    os.makedirs(d, exist_ok=True)
    path = os.path.join(d, digest(v['fp']) + '.json')
    with open(path, 'w') as f:
        json.dump(dict(property=pid, fingerprint=v['fp'], message=v['msg'], group=v['group'],
                       case=jsonable(v['case'])), f, indent=1)
    return path


def eval_replay(mod, group, case):
    """re-evaluate one case without the explorer; returns list of (fp,msg)"""
    target = mod.REPLAY[group]
    case = _tuplify(jsonable(case))
    if hasattr(target, 'build_root'):
        return replay_e1(target, case)
    r = target(case)
    if 'err' in r:
        raise RuntimeError(r['err'])
    return list(r.get('v', ()))


def confirm(mod, v):
    """replay twice; both must show the same fingerprint"""
    try:
        a = [fp for fp, _ in eval_replay(mod, v['group'], v['case'])]
        b = [fp for fp, _ in eval_replay(mod, v['group'], v['case'])]
    except Exception as e:
        print(f'replay raised {type(e).__name__}: {e}', file=sys.stderr)
        return False
    return v['fp'] in a and a == b


def do_replay(mod, pid, path):
    with open(path) as f:
        rec = json.load(f)
    found = eval_replay(mod, rec['group'], rec['case'])
    hit = [(fp, msg) for fp, msg in found if fp == rec['fingerprint']]
    for fp, msg in found:
        print(f'  observed {fp}: {msg}')
    if hit:
        print(f'VIOLATION property={pid} replay={path}')
        return 1
    print(f'{pid}: replay of {path} shows no violation with fingerprint {rec["fingerprint"]}')
    return 0


if __name__ == '__main__':
    sys.exit(main())
