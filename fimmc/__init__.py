"""fimmc - bounded exhaustive exploration (model checking) of fabric-testbed/InformationModel.

Run with /venv/bin/python (fabric_fim is editable-installed from /repo, so the current working
tree of /repo is what gets executed).  See /verif/DESIGN.md.
"""

import logging as _logging
_logging.disable(_logging.CRITICAL)   # the library logs warnings for every forgiving decode; keep check output clean
